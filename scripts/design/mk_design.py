import json, os, re
k=json.load(open('/verif/known_findings.json'))
fixed=[e for e in k if e['status']=='fixed']; known=[e for e in k if e['status']=='known']
sec9="## 9. Findings on the unchanged tree and their disposition (as found by the checks)\n\n"
sec9+="Every entry below was produced by a check (symbolic counterexample) and confirmed by its native\nreplay against the real build before it was acted on. `fix:` commits are in /repo's history; after\neach of them the pinned suite (489 tests, `/verif/scripts/baseline.sh`) passes unchanged. The\nmachine-readable list is `/verif/known_findings.json`.\n\n"
sec9+="**Repaired (%d `fix:` commits).**\n\n| property | commit | what failed |\n|---|---|---|\n" % len(fixed)
for e in fixed:
    d=e['description']
    d=re.sub(r'^fixed:\s*','',d)
    d=re.sub(r'^property=\S+\s+','',d)
    d=re.sub(r'^\(also [^)]*\)\s+','',d)
    d=re.sub(r'^[0-9a-f]{7}\s+','',d)
    sec9+='| %s | %s | %s |\n' % (e['property'], e.get('commit',''), d.replace('|','\\|'))
sec9+="\n**Recorded, not repaired (known findings).** A check prints `KNOWN-FINDING: property=<id> <signature> ...`\nfor these and exits 0; any other violation of the same property is still a `VIOLATION`.\n\n| property | signature | what fails, and why it is not repaired |\n|---|---|---|\n"
for e in known:
    sec9+='| %s | `%s` | %s |\n' % (e['property'], e['signature'], e['description'].replace('|','\\|'))
sec9+=open('/verif/scripts/design/falsealarms.txt').read()
seeded=open('/verif/scripts/design/seeded_head.txt').read()
rows=json.load(open('/verif/scripts/design/rows.json'))
for name in sorted(os.listdir('/verif/seeded')):
    m=json.load(open(f'/verif/seeded/{name}/meta.json'))
    det=m['detected_by']; det=', '.join(det) if isinstance(det,list) else det
    r=rows.get(name,['',''])
    seeded+='| `%s` - %s | %s | %s | %s%s |\n' % (name, m['change'].replace('|','\\|'), m['needs_to_manifest'].replace('|','\\|'), det, r[0], ('; '+r[1]) if r[1] else '')
seeded+=open('/verif/scripts/design/seeded_tail.txt').read()
costs=open('/verif/scripts/design/costs.txt').read()
p='/verif/DESIGN.md'; s=open(p).read()
if '## 9. Findings on the unchanged tree' in s.split('## Appendix A')[0].split('## 8. Build order')[1]:
    a=s.index('## 9. Findings on the unchanged tree and their disposition (as found', s.index('## 8. Build order, risks, fall-backs'))
    b=s.index('## Appendix A')
    s=s[:a]+s[b:]
a=s.index('## Appendix A')
sep='---------------------------------------------------------------------------------------------\n\n'
s=s[:a]+sec9+sep+seeded+sep+costs+'\n'+sep+s[a:]
open(p,'w').write(s)
print(len(s.splitlines()))
