#!/bin/bash
# usage: try_wt.sh <worktree with a seeded change applied> <property>...
# Runs the quick checks against that tree (GOSMT_REPO) without touching /repo or the evidence.
wt=$1; shift
bin=${GOSMT_BIN:-/verif/bin/gosmt}
for p in "$@"; do
  out=$(cd /verif && GOSMT_REPO=$wt timeout ${VERIF_TIMEOUT:-1800} $bin check "$p" 2>&1); rc=$?
  echo "== $p exit=$rc"
  echo "$out" | grep "^VIOLATION\|^BROKEN\|^KNOWN\|UNCONFIRMED\|^   ZZ_" | cut -c1-260
done
