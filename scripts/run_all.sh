#!/bin/bash
# Runs every property's check for the given tier (default quick) and prints a timing table.
tier=${1:-quick}
cd /verif
for p in C01 C02 C03 C04 C05 C06 C07 C08 C09 C10 C11 C12 C13 C14 C15 C16 C17 C18 C19 C20; do
  s=$(date +%s)
  out=$(timeout ${VERIF_TIMEOUT:-7200} ./bin/gosmt check $p --tier $tier 2>&1); rc=$?
  e=$(date +%s)
  echo "$p tier=$tier exit=$rc wall=$((e-s))s $(echo "$out" | grep -c '^KNOWN-FINDING') known, $(echo "$out" | grep -c '^VIOLATION') violations, $(echo "$out" | grep -c '^BROKEN') broken, $(echo "$out" | grep -c 'UNCONFIRMED') unconfirmed"
done
