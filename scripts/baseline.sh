#!/bin/bash
# Runs the repository's pinned test suite (build tag `verif` OFF) and compares
# the set of passing tests with /root/.vp/BASELINE.json's stable_pass list.
export GOFLAGS=-mod=mod GOPROXY=off GOSUMDB=off GOTOOLCHAIN=local
out=$(mktemp)
(cd /repo && go test -json -vet=off -count=1 -timeout 25m ./... > "$out" 2>/dev/null)
python3 - "$out" <<'PY'
import json,sys
passed=set()
for l in open(sys.argv[1]):
    try: e=json.loads(l)
    except: continue
    if e.get('Action')=='pass' and e.get('Test'):
        passed.add(e['Package']+'::'+e['Test'])
base=json.load(open('/root/.vp/BASELINE.json'))['stable_pass']
missing=[t for t in base if t not in passed]
print(f"baseline tests: {len(base)} passing now: {len(base)-len(missing)} missing: {len(missing)}")
for t in missing[:40]: print("  MISSING", t)
sys.exit(1 if missing else 0)
PY
rc=$?
rm -f "$out"
exit $rc
