# Per-property claims for MANIFEST.json (see mkmanifest.py).
NOT_YET = "no check is registered yet in this revision (work in progress; see DESIGN.md §4 for the planned harness)"

CLAIMED = {
 "C08": dict(
   category="other",
   text="Bounded symbolic check of the real include-merge code: for every value of the symbolic task attributes, names, namespaces and include options within the bounds, the solver discharges that the merged task equals its definition field by field, is keyed and cross-referenced under its namespace, and that clashes are reported. Tests pin a few fixtures; here all attribute/option combinations inside the bounds are covered by the solver.",
   note="Tasks are constructed as ast values (YAML reading is not part of this check); strings <= 3 bytes over small alphabets; one task per included file with one dep, two cmds, one alias; filepathext.SmartJoin and logging are stubs; z3 trusted.",
   technique="harnesses over ast.Tasks.Merge / Task.DeepCopy / Taskfile.Merge with symbolic fields; native replay of models"),
 "C19": dict(
   category="other",
   text="Bounded symbolic check of the real argument plumbing: for every argv within the bounds (<=2 positional, <=3 forwarded arguments of <=4 bytes over an alphabet of shell/template/YAML-special bytes, with and without --) the solver discharges that each forwarded argument is quoted on its own and CLI_ARGS is the single blank-joined string, that NAME=value is split at the first '=' only, that non-assignments become calls in order, and that --init writes exactly where the positional argument says and never overwrites (decision table over 5 path shapes x file-system states through the real run()). Tests sample a handful of argvs; rare bytes and the --/--init combinations are what the solver enumerates.",
   note="mvdan/sh syntax.Quote is a stub (an injective per-argument function; the Quote/shell-parse inverse relation is trusted, spot-checked in the native replay with shell.Fields); pflag is a stub returning the symbolic argv; os.Stat/WriteFile/Getwd are a harness file-system model; the shellQuote template function is not yet encoded; argument length <= 4 bytes.",
   technique="harnesses over args.Get, args.Parse, splitVar and cmd/task run() (--init block); models replayed natively and through the built CLI binary"),
}

NA = {p: NOT_YET for p in ["C%02d" % i for i in range(1, 21)]}
