# Per-property claims for MANIFEST.json (see mkmanifest.py).
NOT_YET = "no check is registered yet in this revision (work in progress; see DESIGN.md §4 for the planned harness)"

CLAIMED = {
 "C08": dict(
   category="other",
   text="Bounded symbolic check of the real include-merge code: for every value of the symbolic task attributes, names, namespaces and include options within the bounds, the solver discharges that the merged task equals its definition field by field, is keyed and cross-referenced under its namespace, and that clashes are reported. Tests pin a few fixtures; here all attribute/option combinations inside the bounds are covered by the solver.",
   note="Tasks are constructed as ast values (YAML reading is not part of this check); strings <= 3 bytes over small alphabets; one task per included file with one dep, two cmds, one alias; filepathext.SmartJoin and logging are stubs; z3 trusted.",
   technique="harnesses over ast.Tasks.Merge / Task.DeepCopy / Taskfile.Merge with symbolic fields; native replay of models"),
}

NA = {p: NOT_YET for p in ["C%02d" % i for i in range(1, 21)]}
