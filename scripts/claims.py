# Per-property claims for MANIFEST.json (see mkmanifest.py).
NOT_YET = "no check is registered yet in this revision (work in progress; see DESIGN.md §4 for the planned harness)"

CLAIMED = {
 "C08": dict(
   category="other",
   text="Bounded symbolic check of the real include-merge code: for every value of the symbolic task attributes, names, namespaces and include options within the bounds, the solver discharges that the merged task equals its definition field by field, is keyed and cross-referenced under its namespace, and that clashes are reported. Tests pin a few fixtures; here all attribute/option combinations inside the bounds are covered by the solver.",
   note="Tasks are constructed as ast values (YAML reading is not part of this check); strings <= 3 bytes over small alphabets; one task per included file with one dep, two cmds, one alias; filepathext.SmartJoin and logging are stubs; z3 trusted.",
   technique="harnesses over ast.Tasks.Merge / Task.DeepCopy / Taskfile.Merge with symbolic fields; native replay of models"),
 "C19": dict(
   category="other",
   text="Bounded symbolic check of the real argument plumbing: for every argv within the bounds (<=2 positional, <=3 forwarded arguments of <=4 bytes over an alphabet of shell/template/YAML-special bytes, with and without --) the solver discharges that each forwarded argument is quoted on its own and CLI_ARGS is the single blank-joined string, that NAME=value is split at the first '=' only, that non-assignments become calls in order, and that --init writes exactly where the positional argument says and never overwrites (decision table over 5 path shapes x file-system states through the real run()). Tests sample a handful of argvs; rare bytes and the --/--init combinations are what the solver enumerates.",
   note="mvdan/sh syntax.Quote is a stub (an injective per-argument function; the Quote/shell-parse inverse relation is trusted, spot-checked in the native replay with shell.Fields); pflag is a stub returning the symbolic argv; os.Stat/WriteFile/Getwd are a harness file-system model; the shellQuote template function is not yet encoded; argument length <= 4 bytes.",
   technique="harnesses over args.Get, args.Parse, splitVar and cmd/task run() (--init block); models replayed natively and through the built CLI binary"),
 "C15": dict(
   category="other",
   text="Bounded symbolic check of the real name-resolution code (GetTask, FindMatchingTasks, Task.WildcardMatch, setupFuzzyModel): for every set of 2 (thorough: 3) task names of <=3 bytes over {a b : . * - ( +}, aliases and every request of <=4 bytes the solver discharges exact-name-first, first-matching-pattern-in-table-order with only '*' special and MATCH equal to the matched substrings, unique-alias, 203 on ambiguous alias, 200 with the spelling suggestion otherwise, and that the spelling model is built and trained on all names and aliases. Tests fix a few names; the solver covers all names including regexp metacharacters.",
   note="regexp is modelled only for the wildcard shape ^lit(.*)lit$ with <=2 '*' (literal pieces via regexp.QuoteMeta); a task name that reaches regexp.Compile unquoted while holding a metacharacter is reported as a candidate that the native replay must confirm by finding a witness request; the fuzzy library is a stub that records its training words; ordered maps run from source.",
   technique="harnesses over Executor.GetTask / Task.WildcardMatch / setupFuzzyModel with symbolic names, aliases and request; native replay"),
 "C16": dict(
   category="other",
   text="Bounded symbolic check that no panic path is feasible in the hand-written layer between yaml.v3's node tree and the AST: all 18 UnmarshalYAML methods of taskfile/ast on arbitrary well-formed yaml.Node trees (symbolic kind, value, arity, position), NewGitNode/getScheme on symbolic URL paths, and the snippet arithmetic for every file length / position / padding. Every feasible runtime-panic path (index, nil dereference, failed assertion, regexp.MustCompile) is a violation; counterexamples are confirmed by running the real yaml.Unmarshal on the serialised tree.",
   note="inputs are well-formed node trees, not byte strings: yaml.v3's scanner/parser/decoder is not encoded (node.Decode is a stub that fails or returns an arbitrary value of the target's static type with bounded structure, see engine/decode.go); giturls.Parse, net/url String/Query and the chroma highlighter are stubs; text/template parsing, OOM and wall-clock bounds are outside; node depth <= 1 level of children, <=1 (thorough 2) items per node, strings <= 3 bytes.",
   technique="panic-reachability queries over taskfile/ast UnmarshalYAML methods, NewGitNode, NewSnippet/String; native replay through yaml.Unmarshal"),
 "C10": dict(
   category="other",
   text="Bounded symbolic check of the real variable resolution (Taskfile.Merge, Tasks.Merge, Vars.Merge, Compiler.getVariables/getSpecialVars, compiledTask's env block, env.Get): one name defined at an arbitrary subset of the 7 sites (task vars, call vars, included-Taskfile vars, include-statement vars, CLI assignment, global vars, OS environment; 2^7 subsets by symbolic booleans, symbolic values, literal or sh:), for a task of the root file and of an included file; the solver discharges that the compiled value is the one of the highest-priority defining site, and for env: process environment first unless ENV_PRECEDENCE, then task env over global env. Tests pin single precedence pairs; here every subset is covered.",
   note="templater.Replace* are identity stubs (values are template-free); sh: values go through a stub shell that understands `echo <text>`; os.Environ/LookupEnv are a harness list; dotenv files and nesting depth > 1 are not yet encoded; values <= 2 bytes over {a,b}.",
   technique="harnesses over Taskfile.Merge + Compiler.GetVariables and Executor.CompiledTask + env.Get with symbolic definition-site subsets; native replay with the real templater"),
}

NA = {p: NOT_YET for p in ["C%02d" % i for i in range(1, 21)]}
