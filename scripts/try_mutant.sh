#!/bin/bash
# usage: try_mutant.sh <patch> <property>...   applies the patch to /repo, runs the quick checks, reverts.
patch=$1; shift
cd /repo || exit 2
if ! git apply --check "$patch" 2>/dev/null; then echo "PATCH DOES NOT APPLY: $patch"; exit 2; fi
git apply "$patch"
for p in "$@"; do
  out=$(cd /verif && timeout 1500 ./bin/gosmt check "$p" 2>&1)
  rc=$?
  echo "== $p exit=$rc"
  echo "$out" | grep "^VIOLATION\|^BROKEN\|^KNOWN\|UNCONFIRMED" | cut -c1-260
done
git -C /repo checkout -- .
git -C /repo status --short | head -3
