#!/bin/bash
# usage: try_mutant.sh <seeded/NAME/patch.diff> <property>...
# Runs the quick checks against a scratch worktree of /repo with the seeded change applied
# (GOSMT_REPO): /repo itself and the evidence files are left alone. A change written against an
# earlier state of /repo (meta.json "applies_to": later fix: commits touched the same lines) is
# applied to that commit; checks run there may also report what those later commits repaired.
patch=$(readlink -f "$1"); shift
meta=$(dirname "$patch")/meta.json
base=$(python3 -c "import json,sys; print(json.load(open(sys.argv[1])).get('applies_to') or 'HEAD')" "$meta" 2>/dev/null || echo HEAD)
wt=$(mktemp -d /tmp/mutant.XXXXXX); rmdir "$wt"
git -C /repo worktree add -q --detach "$wt" "$base" || exit 2
cleanup() { git -C /repo worktree remove --force "$wt" 2>/dev/null; git -C /repo worktree prune; }
trap cleanup EXIT
if ! git -C "$wt" apply "$patch" 2>/dev/null; then echo "PATCH DOES NOT APPLY to $base: $patch"; exit 2; fi
echo "change applied to $base in $wt"
for p in "$@"; do
  out=$(cd /verif && GOSMT_REPO=$wt timeout 1500 ./bin/gosmt check "$p" 2>&1)
  rc=$?
  echo "== $p exit=$rc"
  echo "$out" | grep "^VIOLATION\|^BROKEN\|^KNOWN\|UNCONFIRMED" | cut -c1-260
done
