#!/usr/bin/env python3
"""Regenerates /verif/MANIFEST.json from the table below (kept next to the harness registry
in engine/props.go). Claimed properties must have harnesses registered for both tiers."""
import json, subprocess

ENV = "GOFLAGS=-mod=mod GOPROXY=off GOSUMDB=off GOTOOLCHAIN=local"
TECH = "bounded symbolic execution of the real Go code (go/ssa -> SMT-LIB2, z3) by the gosmt engine; "

# id -> (category, text, note, technique-suffix, design_ref)
CLAIMED = {}
NA = {}

def load_tables():
    import importlib.util, os
    spec = importlib.util.spec_from_file_location("claims", os.path.join(os.path.dirname(__file__), "claims.py"))
    m = importlib.util.module_from_spec(spec); spec.loader.exec_module(m)
    return m.CLAIMED, m.NA

def main():
    claimed, na = load_tables()
    props = [json.loads(l)["id"] for l in open("/verif/properties.jsonl")]
    checks = []
    for pid in props:
        if pid not in claimed:
            continue
        c = claimed[pid]
        checks.append({
            "property_id": pid,
            "quick_cmd": f"/verif/bin/gosmt check {pid} --tier quick",
            "thorough_cmd": f"/verif/bin/gosmt check {pid} --tier thorough",
            "evidence_file": f"/verif/evidence/{pid}.json",
            "replay_cmd_template": "/verif/bin/gosmt replay {path}",
            "engine": "gosmt",
            "level_claimed": {"category": c["category"], "text": c["text"], "design_ref": c.get("design_ref", "DESIGN.md §4 " + pid)},
            "level_note": c["note"],
            "technique": TECH + c["technique"],
        })
    man = {
        "version": 1,
        "setup_cmd": f"cd /verif/engine && {ENV} go build -o /verif/bin/gosmt . && /verif/bin/gosmt list >/dev/null",
        "hooks": {
            "guard": "verif",
            "enable": "no source hooks: harnesses are injected into the real packages with go/packages Overlay (symbolic run) and go build -overlay (native replay); /repo is unmodified apart from fix: commits",
            "baseline_off_cmd": "/verif/scripts/baseline.sh",
            "source_commits": [],
            "add_only": True,
        },
        "engines": [{
            "name": "gosmt",
            "path": "/verif/engine",
            "serves_properties": [c["property_id"] for c in checks],
            "kind_free_text": "bounded symbolic executor for Go SSA (golang.org/x/tools/go/ssa v0.29.0) with an SMT back end (z3 4.8.12 over pipes): symbolic inputs, interleavings and histories are solver variables; assertions are discharged by the solver; counterexamples are replayed natively against /repo before being reported",
        }],
        "checks": checks,
        "notes": "Every check rebuilds its encoding from /repo's current working tree. Exit 0: all assertions discharged within the registered bounds (KNOWN-FINDING lines for listed findings). Exit 1 + VIOLATION line: a replay-confirmed violation not listed in /verif/known_findings.json. Exit 2 + BROKEN line: the check could not decide (harness no longer type-checks, unwinding bound exceeded, solver unknown, vacuous harness) - never reported as a pass.",
        "not_applicable": [{"property_id": p, "reason": na[p]} for p in props if p not in claimed],
    }
    json.dump(man, open("/verif/MANIFEST.json", "w"), indent=1)
    print("claimed:", [c["property_id"] for c in checks], "not_applicable:", [x["property_id"] for x in man["not_applicable"]])

main()
