// Native implementation of the harness vocabulary, used when a solver
// counterexample is replayed against the real build: symbolic inputs take the
// values of the model (file named by $ZZ_MODEL), assertions are checked and
// reported on stdout.
package zzsym

import (
	"encoding/json"
	"fmt"
	"os"
	"reflect"
	"strconv"
	"sync"
)

type Event struct {
	Kind string
	ID   string
	Val  int
	G    int
}

var (
	mu     sync.Mutex
	model  map[string]string
	params map[string]int
	names  = map[string]int{}
	events []Event
	loaded bool
	modelTrace []string
)

func load() {
	if loaded {
		return
	}
	loaded = true
	model = map[string]string{}
	params = map[string]int{}
	if f := os.Getenv("ZZ_MODEL"); f != "" {
		b, err := os.ReadFile(f)
		if err == nil {
			var m struct {
				Model  map[string]string
				Params map[string]int
				Trace  []string
			}
			if json.Unmarshal(b, &m) == nil {
				if m.Model != nil {
					model = m.Model
				}
				if m.Params != nil {
					params = m.Params
				}
				modelTrace = m.Trace
			}
		}
	}
}

func key(name string) string {
	names[name]++
	if k := names[name]; k > 1 {
		return fmt.Sprintf("%s@%d", name, k)
	}
	return name
}

func lookup(name string) (string, bool) {
	mu.Lock()
	defer mu.Unlock()
	load()
	v, ok := model[key(name)]
	return v, ok
}

func Bool(name string) bool {
	v, _ := lookup(name)
	return v == "true"
}

func Int(name string, lo, hi int) int {
	v, ok := lookup(name)
	if !ok {
		return lo
	}
	u, _ := strconv.ParseUint(v, 10, 64)
	return int(int64(u))
}

func Uint8(name string) uint8 {
	v, _ := lookup(name)
	u, _ := strconv.ParseUint(v, 10, 64)
	return uint8(u)
}

func Str(name string, maxLen int, alphabet string) string {
	v, _ := lookup(name)
	return v
}

func Choose(name string, n int) int { return Int(name, 0, n-1) }

// AssumeFalse is the panic value that ends a native run whose model does not
// satisfy an assumption (the replay then confirms nothing).
type AssumeFalse struct{}

func Assume(c bool) {
	if !c {
		fmt.Println("ZZ-ASSUME-FALSE")
		panic(AssumeFalse{})
	}
}

func IsAssumeFalse(r any) bool { _, ok := r.(AssumeFalse); return ok }

func Assert(c bool, label string) {
	if !c {
		fmt.Printf("ZZ-VIOLATED %s\n", label)
	}
}

func Reach(label string) { fmt.Printf("ZZ-REACH %s\n", label) }
func Note(s string)      { fmt.Printf("ZZ-NOTE %s\n", s) }

func Param(name string, def int) int {
	mu.Lock()
	defer mu.Unlock()
	load()
	if v, ok := params[name]; ok {
		return v
	}
	return def
}

func Native() bool { return true }
func Twin() bool   { return false }
func Yield()       {}

// Try / Kill: natively a kill is staged by the harness itself (a command that blocks for
// good in an abandoned invocation); Kill is never called.
func Try(f func()) bool { f(); return false }
func Kill()             {}

func Emit(kind, id string, val int) {
	mu.Lock()
	events = append(events, Event{Kind: kind, ID: id, Val: val})
	mu.Unlock()
}

func Trace() []Event {
	mu.Lock()
	defer mu.Unlock()
	return append([]Event{}, events...)
}

func DeepEqual(a, b any) bool { return reflect.DeepEqual(a, b) }

func OneOf(s string, candidates ...string) string { return s }

func ModelTrace() []string {
	mu.Lock()
	defer mu.Unlock()
	load()
	return modelTrace
}
