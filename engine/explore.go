package main

import (
	"fmt"
	"sync"
)

// Explorer drives one path: it replays a prefix of decisions and then takes
// default (0) choices, recording every decision point in the trail.
type Explorer struct {
	prefix []int
	pos    int
	trail  []decision
	kinds  map[string]int // forks by kind (only counted beyond the prefix)
}

type decision struct {
	n      int
	chosen int
	kind   string
}

func (e *Explorer) choose(n int, kind string) int {
	c := 0
	if e.pos < len(e.prefix) {
		c = e.prefix[e.pos]
		if c >= n {
			// The decision tree changed between executions: replay is not deterministic.
			fault("non-deterministic re-execution: decision %d had %d alternatives, prefix wants %d (%s)", e.pos, n, c, kind)
		}
	} else if n > 1 {
		if e.kinds == nil {
			e.kinds = map[string]int{}
		}
		e.kinds[kind]++
	}
	e.pos++
	e.trail = append(e.trail, decision{n: n, chosen: c, kind: kind})
	return c
}

func (e *Explorer) vector() []int {
	v := make([]int, len(e.trail))
	for i, d := range e.trail {
		v[i] = d.chosen
	}
	return v
}

// frontier is a shared LIFO of unexplored prefixes (DFS order, any worker).
type frontier struct {
	mu      sync.Mutex
	cond    *sync.Cond
	stack   [][]int
	busy    int
	stopped bool
}

func newFrontier() *frontier {
	f := &frontier{}
	f.cond = sync.NewCond(&f.mu)
	f.stack = [][]int{{}}
	return f
}

// pop returns the next prefix, or nil when exploration is finished.
func (f *frontier) pop() ([]int, bool) {
	f.mu.Lock()
	defer f.mu.Unlock()
	for {
		if f.stopped {
			return nil, false
		}
		if n := len(f.stack); n > 0 {
			p := f.stack[n-1]
			f.stack = f.stack[:n-1]
			f.busy++
			return p, true
		}
		if f.busy == 0 {
			f.cond.Broadcast()
			return nil, false
		}
		f.cond.Wait()
	}
}

// done is called after a path finished with its trail; alternatives of all
// decisions beyond the replayed prefix are pushed.
func (f *frontier) done(prefixLen int, trail []decision) {
	f.mu.Lock()
	defer f.mu.Unlock()
	for k := prefixLen; k < len(trail); k++ {
		for c := trail[k].n - 1; c >= 1; c-- {
			p := make([]int, k+1)
			for j := 0; j < k; j++ {
				p[j] = trail[j].chosen
			}
			p[k] = c
			f.stack = append(f.stack, p)
		}
	}
	f.busy--
	f.cond.Broadcast()
}

func (f *frontier) stop() {
	f.mu.Lock()
	f.stopped = true
	f.cond.Broadcast()
	f.mu.Unlock()
}

func (f *frontier) pending() int {
	f.mu.Lock()
	defer f.mu.Unlock()
	return len(f.stack)
}

func vecString(v []int) string {
	s := ""
	for _, x := range v {
		if x < 10 {
			s += fmt.Sprint(x)
		} else {
			s += fmt.Sprintf("(%d)", x)
		}
	}
	return s
}
