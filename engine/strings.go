package main

import (
	"go/types"
	"path/filepath"
	"strconv"
	"strings"

	"golang.org/x/tools/go/ssa"
)

func sterm(v value) *Term { return v.(*Term) }

func strSlice(parts []string) value {
	out := make([]value, len(parts))
	for k := range parts {
		out[k] = TStr(parts[k])
	}
	return out
}

// splitSym splits a symbolic string at a constant, non-empty separator by
// forking on "contains another separator" (bounded by the unwinding bound).
func (i *Interp) splitSym(s, sep *Term, limit int) []value {
	var parts []value
	cur := s
	for n := 0; ; n++ {
		if n > i.unwind {
			panic(pathEnd{"unwind:strings.Split"})
		}
		if limit > 0 && len(parts) == limit-1 {
			break
		}
		if !i.branch(StrContains(cur, sep)) {
			break
		}
		// cur = piece ++ sep ++ rest with no separator inside piece (fresh variables
		// keep the constraints flat instead of nesting substr/indexof terms)
		piece := i.fresh("$piece", SStr, 0)
		rest := i.fresh("$rest", SStr, 0)
		i.pc = append(i.pc, Eq(cur, StrConcat(StrConcat(piece, sep), rest)), Not(StrContains(piece, sep)))
		parts = append(parts, piece)
		cur = rest
	}
	return append(parts, cur)
}

func (i *Interp) trimLeftSet(s *Term, set string) *Term {
	for n := 0; ; n++ {
		if n > i.unwind {
			panic(pathEnd{"unwind:strings.Trim"})
		}
		if s.Const {
			return TStr(strings.TrimLeft(s.S, set))
		}
		c := TBool(false)
		for k := 0; k < len(set); k++ {
			c = Or(c, StrPrefixOf(TStr(set[k:k+1]), s))
		}
		if !i.branch(c) {
			return s
		}
		s = StrSubstr(s, TInt(1), StrLenInt(s))
	}
}

func (i *Interp) trimRightSet(s *Term, set string) *Term {
	for n := 0; ; n++ {
		if n > i.unwind {
			panic(pathEnd{"unwind:strings.Trim"})
		}
		if s.Const {
			return TStr(strings.TrimRight(s.S, set))
		}
		c := TBool(false)
		for k := 0; k < len(set); k++ {
			c = Or(c, StrSuffixOf(TStr(set[k:k+1]), s))
		}
		if !i.branch(c) {
			return s
		}
		s = StrSubstr(s, TInt(0), IntBin("-", StrLenInt(s), TInt(1)))
	}
}

const spaceSet = " \t\n\r\v\f"

type builderState struct{ t *Term }

func (i *Interp) builder(p value) *builderState {
	if i.builders == nil {
		i.builders = map[*value]*builderState{}
	}
	ptr := p.(*value)
	b := i.builders[ptr]
	if b == nil {
		b = &builderState{t: TStr("")}
		i.builders[ptr] = b
	}
	return b
}

func bytesToTerm(v value) *Term {
	switch b := v.(type) {
	case symBytes:
		return b.t
	case []value:
		r := TStr("")
		for _, x := range b {
			xt := x.(*Term)
			if !xt.Const {
				fault("[]byte with symbolic bytes used as string")
			}
			r = StrConcat(r, TStr(string([]byte{byte(xt.U)})))
		}
		return r
	}
	fault("bytesToTerm %T", v)
	return nil
}

func pathFn(f func(string) string) intrinsic {
	return func(i *Interp, _ *frame, fn *ssa.Function, a []value) value {
		s := sterm(a[0])
		if s.Const {
			return TStr(f(s.S))
		}
		fault("%s on a symbolic path", fn.String())
		return nil
	}
}

func pathFnIdent(f func(string) string) intrinsic {
	return func(i *Interp, _ *frame, fn *ssa.Function, a []value) value {
		s := sterm(a[0])
		if s.Const {
			return TStr(f(s.S))
		}
		return s // contract: symbolic paths are already clean, slash-separated names
	}
}

func init() {
	S := func(f func(i *Interp, a []value) value) intrinsic {
		return func(i *Interp, _ *frame, _ *ssa.Function, a []value) value { return f(i, a) }
	}
	m := map[string]intrinsic{
		"strings.Index": S(func(i *Interp, a []value) value {
			return BVOfInt(StrIndexOf(sterm(a[0]), sterm(a[1]), TInt(0)))
		}),
		"strings.IndexByte": S(func(i *Interp, a []value) value {
			c := a[1].(*Term)
			if !c.Const {
				fault("IndexByte symbolic byte")
			}
			return BVOfInt(StrIndexOf(sterm(a[0]), TStr(string([]byte{byte(c.U)})), TInt(0)))
		}),
		"strings.LastIndex": S(func(i *Interp, a []value) value {
			s, sub := sterm(a[0]), sterm(a[1])
			if s.Const && sub.Const {
				return TBV(64, uint64(int64(strings.LastIndex(s.S, sub.S))))
			}
			return BVOfInt(i.lastIndexOf(s, sub))
		}),
		"strings.Split": S(func(i *Interp, a []value) value {
			s, sep := sterm(a[0]), sterm(a[1])
			if s.Const && sep.Const {
				return strSlice(strings.Split(s.S, sep.S))
			}
			if !sep.Const || sep.S == "" {
				fault("strings.Split with symbolic or empty separator")
			}
			return i.splitSym(s, sep, -1)
		}),
		"strings.SplitN": S(func(i *Interp, a []value) value {
			s, sep, n := sterm(a[0]), sterm(a[1]), sterm(a[2])
			if !n.Const {
				fault("strings.SplitN symbolic n")
			}
			if s.Const && sep.Const {
				return strSlice(strings.SplitN(s.S, sep.S, int(n.signed())))
			}
			if !sep.Const || sep.S == "" {
				fault("strings.SplitN with symbolic or empty separator")
			}
			if n.signed() == 0 {
				return []value(nil)
			}
			return i.splitSym(s, sep, int(n.signed()))
		}),
		"strings.Count": S(func(i *Interp, a []value) value {
			s, sub := sterm(a[0]), sterm(a[1])
			if s.Const && sub.Const {
				return TBV(64, uint64(strings.Count(s.S, sub.S)))
			}
			if !sub.Const || sub.S == "" {
				fault("strings.Count with symbolic or empty substring")
			}
			return TBV(64, uint64(len(i.splitSym(s, sub, -1))-1))
		}),
		"strings.ReplaceAll": S(func(i *Interp, a []value) value {
			return StrReplaceAll(sterm(a[0]), sterm(a[1]), sterm(a[2]))
		}),
		"strings.Replace": S(func(i *Interp, a []value) value {
			n := sterm(a[3])
			if !n.Const {
				fault("strings.Replace symbolic n")
			}
			switch {
			case n.signed() < 0:
				return StrReplaceAll(sterm(a[0]), sterm(a[1]), sterm(a[2]))
			case n.signed() == 0:
				return a[0]
			case n.signed() == 1:
				return StrReplaceFirst(sterm(a[0]), sterm(a[1]), sterm(a[2]))
			}
			s, o, nw := sterm(a[0]), sterm(a[1]), sterm(a[2])
			if s.Const && o.Const && nw.Const {
				return TStr(strings.Replace(s.S, o.S, nw.S, int(n.signed())))
			}
			fault("strings.Replace n>1 symbolic")
			return nil
		}),
		"strings.TrimPrefix": S(func(i *Interp, a []value) value {
			s, p := sterm(a[0]), sterm(a[1])
			if s.Const && p.Const {
				return TStr(strings.TrimPrefix(s.S, p.S))
			}
			rest := StrSubstr(s, StrLenInt(p), StrLenInt(s))
			return Ite(StrPrefixOf(p, s), rest, s)
		}),
		"path/filepath.IsAbs": S(func(i *Interp, a []value) value { return StrPrefixOf(TStr("/"), sterm(a[0])) }),
		"path/filepath.Join": S(func(i *Interp, a []value) value {
			parts := a[0].([]value)
			all := true
			var cs []string
			for _, p := range parts {
				if !sterm(p).Const {
					all = false
				}
				cs = append(cs, sterm(p).S)
			}
			if all {
				return TStr(filepath.Join(cs...))
			}
			// contract for symbolic operands: plain clean names (no "." / ".." / doubled separators)
			r := TStr("")
			first := true
			for _, p := range parts {
				pt := sterm(p)
				if pt.Const && pt.S == "" {
					continue
				}
				if !first {
					r = StrConcat(r, TStr("/"))
				}
				first = false
				r = StrConcat(r, pt)
			}
			return r
		}),
		"path/filepath.Dir":       pathFn(filepath.Dir),
		"path/filepath.Base":      pathFn(filepath.Base),
		"path/filepath.Ext":       pathFn(filepath.Ext),
		"path/filepath.Clean":     pathFnIdent(filepath.Clean),
		"path/filepath.ToSlash":   pathFnIdent(filepath.ToSlash),
		"path/filepath.FromSlash": pathFnIdent(filepath.FromSlash),
		"path/filepath.Abs": S(func(i *Interp, a []value) value {
			s := sterm(a[0])
			if s.Const && filepath.IsAbs(s.S) {
				return tuple{TStr(filepath.Clean(s.S)), iface{}}
			}
			return tuple{Ite(StrPrefixOf(TStr("/"), s), s, StrConcat(TStr("/cwd/"), s)), iface{}}
		}),
		"strings.TrimSuffix": S(func(i *Interp, a []value) value {
			s, p := sterm(a[0]), sterm(a[1])
			if s.Const && p.Const {
				return TStr(strings.TrimSuffix(s.S, p.S))
			}
			rest := StrSubstr(s, TInt(0), IntBin("-", StrLenInt(s), StrLenInt(p)))
			return Ite(StrSuffixOf(p, s), rest, s)
		}),
		"strings.TrimSpace": S(func(i *Interp, a []value) value {
			return i.trimRightSet(i.trimLeftSet(sterm(a[0]), spaceSet), spaceSet)
		}),
		"strings.TrimLeft":  S(func(i *Interp, a []value) value { return i.trimLeftSet(sterm(a[0]), cstr(a[1])) }),
		"strings.TrimRight": S(func(i *Interp, a []value) value { return i.trimRightSet(sterm(a[0]), cstr(a[1])) }),
		"strings.Trim": S(func(i *Interp, a []value) value {
			return i.trimRightSet(i.trimLeftSet(sterm(a[0]), cstr(a[1])), cstr(a[1]))
		}),
		"strings.Join": S(func(i *Interp, a []value) value {
			parts := a[0].([]value)
			r := TStr("")
			for k, p := range parts {
				if k > 0 {
					r = StrConcat(r, sterm(a[1]))
				}
				r = StrConcat(r, sterm(p))
			}
			return r
		}),
		"strings.ToLower": S(func(i *Interp, a []value) value {
			s := sterm(a[0])
			if s.Const {
				return TStr(strings.ToLower(s.S))
			}
			// symbolic strings range over alphabets without upper-case letters (stated in the harness)
			return s
		}),
		"strings.ToUpper": S(func(i *Interp, a []value) value {
			s := sterm(a[0])
			if s.Const {
				return TStr(strings.ToUpper(s.S))
			}
			fault("symbolic strings.ToUpper")
			return nil
		}),
		"strings.EqualFold": S(func(i *Interp, a []value) value {
			s, t := sterm(a[0]), sterm(a[1])
			if s.Const && t.Const {
				return TBool(strings.EqualFold(s.S, t.S))
			}
			return Eq(s, t)
		}),
		"strings.Repeat": S(func(i *Interp, a []value) value {
			s, n := sterm(a[0]), sterm(a[1])
			if !n.Const {
				fault("strings.Repeat symbolic count")
			}
			if n.signed() < 0 {
				panic(targetPanic{v: iface{t: types.Typ[types.String], v: TStr("strings: negative Repeat count")}})
			}
			r := TStr("")
			for k := int64(0); k < n.signed(); k++ {
				r = StrConcat(r, s)
			}
			return r
		}),
		"strings.Fields": S(func(i *Interp, a []value) value {
			s := sterm(a[0])
			if s.Const {
				return strSlice(strings.Fields(s.S))
			}
			fault("symbolic strings.Fields")
			return nil
		}),
		"strings.ContainsAny": S(func(i *Interp, a []value) value {
			s, set := sterm(a[0]), cstr(a[1])
			r := TBool(false)
			for k := 0; k < len(set); k++ {
				r = Or(r, StrContains(s, TStr(set[k:k+1])))
			}
			return r
		}),
		"strings.ContainsRune": S(func(i *Interp, a []value) value {
			r := a[1].(*Term)
			if !r.Const {
				fault("ContainsRune symbolic rune")
			}
			return StrContains(sterm(a[0]), TStr(string(rune(r.signed()))))
		}),
		"strings.Compare": S(func(i *Interp, a []value) value {
			s, t := sterm(a[0]), sterm(a[1])
			return Ite(Eq(s, t), TBV(64, 0), Ite(StrLt(s, t), TBV(64, ^uint64(0)), TBV(64, 1)))
		}),
		"(*strings.Builder).WriteString": S(func(i *Interp, a []value) value {
			b := i.builder(a[0])
			b.t = StrConcat(b.t, sterm(a[1]))
			return tuple{StrLen(sterm(a[1])), iface{}}
		}),
		"(*strings.Builder).WriteByte": S(func(i *Interp, a []value) value {
			b := i.builder(a[0])
			c := a[1].(*Term)
			if !c.Const {
				fault("Builder.WriteByte symbolic")
			}
			b.t = StrConcat(b.t, TStr(string([]byte{byte(c.U)})))
			return iface{}
		}),
		"(*strings.Builder).WriteRune": S(func(i *Interp, a []value) value {
			b := i.builder(a[0])
			c := a[1].(*Term)
			if !c.Const {
				fault("Builder.WriteRune symbolic")
			}
			b.t = StrConcat(b.t, TStr(string(rune(c.signed()))))
			return tuple{TBV(64, 1), iface{}}
		}),
		"(*strings.Builder).Write": S(func(i *Interp, a []value) value {
			b := i.builder(a[0])
			t := bytesToTerm(a[1])
			b.t = StrConcat(b.t, t)
			return tuple{StrLen(t), iface{}}
		}),
		"(*strings.Builder).String": S(func(i *Interp, a []value) value { return i.builder(a[0]).t }),
		"(*strings.Builder).Len":    S(func(i *Interp, a []value) value { return StrLen(i.builder(a[0]).t) }),
		"(*strings.Builder).Grow":   S(func(i *Interp, a []value) value { return nil }),
		"(*strings.Builder).Reset": S(func(i *Interp, a []value) value {
			i.builder(a[0]).t = TStr("")
			return nil
		}),
		"strconv.Itoa": S(func(i *Interp, a []value) value {
			t := a[0].(*Term)
			if t.Const {
				return TStr(strconv.FormatInt(t.signed(), 10))
			}
			return StrFromInt(IntOf(t))
		}),
		"strconv.Quote": S(func(i *Interp, a []value) value {
			s := sterm(a[0])
			if s.Const {
				return TStr(strconv.Quote(s.S))
			}
			return StrConcat(StrConcat(TStr(`"`), s), TStr(`"`))
		}),
		"strconv.Atoi": S(func(i *Interp, a []value) value {
			s := sterm(a[0])
			if s.Const {
				n, err := strconv.Atoi(s.S)
				if err != nil {
					return tuple{TBV(64, 0), mkError(TStr(err.Error()))}
				}
				return tuple{TBV(64, uint64(int64(n))), iface{}}
			}
			fault("symbolic strconv.Atoi")
			return nil
		}),
		"unicode/utf8.RuneCountInString": S(func(i *Interp, a []value) value { return StrLen(sterm(a[0])) }),
		"unicode/utf8.ValidString":       S(func(i *Interp, a []value) value { return TBool(true) }),
	}
	for k, v := range m {
		intrinsics[k] = v
	}
}
