package main

import (
	"fmt"
	"go/types"

	"golang.org/x/tools/go/ssa"
)

// Model of github.com/mitchellh/hashstructure/v2 (reflection-based, not encoded):
// Hash(v) = H(serialisation of v), where the serialisation follows the library's
// documented traversal — exported struct fields only (with their names), pointers
// and interfaces followed, slices in order, maps as sorted entries — and H is
// treated as injective (hash collisions are outside every claim). The digest is a
// pseudo-term whose only supported use is decimal formatting, which yields the
// serialisation itself.

func (i *Interp) hsSerialise(v value, t types.Type, depth int) *Term {
	if depth > 12 {
		fault("hashstructure model: value too deep")
	}
	switch u := t.Underlying().(type) {
	case *types.Basic:
		tv, ok := v.(*Term)
		if !ok {
			return TStr("?")
		}
		switch tv.Sort {
		case SStr:
			return StrConcat(StrConcat(TStr(`"`), tv), TStr(`"`))
		case SBool:
			return Ite(tv, TStr("T"), TStr("F"))
		case SBV:
			if tv.Const {
				return TStr(fmt.Sprint(tv.U))
			}
			return StrFromInt(IntOf(BVResize(tv, 64, false)))
		}
		return TStr("?")
	case *types.Pointer:
		p, _ := v.(*value)
		if p == nil {
			return TStr("nil")
		}
		return i.hsSerialise(*p, u.Elem(), depth+1)
	case *types.Interface:
		itf, _ := v.(iface)
		if itf.t == nil {
			return TStr("nil")
		}
		return i.hsSerialise(itf.v, itf.t, depth+1)
	case *types.Struct:
		s := v.(structure)
		r := TStr("{")
		for k := 0; k < u.NumFields(); k++ {
			f := u.Field(k)
			if !f.Exported() {
				continue
			}
			r = StrConcat(r, TStr(f.Name()+"="))
			r = StrConcat(r, i.hsSerialise(s[k], f.Type(), depth+1))
			r = StrConcat(r, TStr(";"))
		}
		return StrConcat(r, TStr("}"))
	case *types.Slice:
		sl, _ := v.([]value)
		r := TStr("[")
		for _, x := range sl {
			r = StrConcat(r, i.hsSerialise(x, u.Elem(), depth+1))
			r = StrConcat(r, TStr(","))
		}
		return StrConcat(r, TStr("]"))
	case *types.Array:
		a := v.(array)
		r := TStr("[")
		for _, x := range a {
			r = StrConcat(r, i.hsSerialise(x, u.Elem(), depth+1))
			r = StrConcat(r, TStr(","))
		}
		return StrConcat(r, TStr("]"))
	case *types.Map:
		m, _ := v.(*mapV)
		r := TStr("map[")
		if m != nil {
			for k := range m.keys {
				r = StrConcat(r, i.hsSerialise(m.keys[k], u.Key(), depth+1))
				r = StrConcat(r, TStr(":"))
				r = StrConcat(r, i.hsSerialise(m.vals[k], u.Elem(), depth+1))
				r = StrConcat(r, TStr(","))
			}
		}
		return StrConcat(r, TStr("]"))
	case *types.Signature, *types.Chan:
		return TStr("-")
	}
	return TStr("?")
}

func init() {
	intrinsics["github.com/mitchellh/hashstructure/v2.Hash"] = func(i *Interp, _ *frame, _ *ssa.Function, a []value) value {
		itf := a[0].(iface)
		ser := TStr("nil")
		if itf.t != nil {
			ser = i.hsSerialise(itf.v, itf.t, 0)
		}
		return tuple{app(SBV, 64, "hs.digest", ser), iface{}}
	}
}
