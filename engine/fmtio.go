package main

import (
	"go/types"
	"net/url"
	"reflect"
	"strings"

	"golang.org/x/tools/go/ssa"
)

// writeTo performs w.Write([]byte(s)) on an interpreted io.Writer.
func (i *Interp) writeTo(caller *frame, w iface, s *Term) value {
	if w.t == nil {
		nilDeref("Write on nil io.Writer")
	}
	f := i.method(w.t, "Write")
	if f == nil {
		fault("writer %v has no Write method", w.t)
	}
	var b value
	if s.Const {
		bs := make([]value, len(s.S))
		for k := range bs {
			bs[k] = TBV(8, uint64(s.S[k]))
		}
		b = bs
	} else {
		b = symBytes{s}
	}
	return i.call(caller, 0, f, []value{w.v, b})
}

func (i *Interp) sprintln(caller *frame, args []value) *Term {
	r := TStr("")
	for k, x := range args {
		if k > 0 {
			r = StrConcat(r, TStr(" "))
		}
		r = StrConcat(r, i.formatValue(caller, x.(iface), 'v'))
	}
	return StrConcat(r, TStr("\n"))
}

func init() {
	m := map[string]intrinsic{
		"fmt.Fprintf": func(i *Interp, caller *frame, _ *ssa.Function, a []value) value {
			s := i.sprintfC(caller, cstr(a[1]), a[2].([]value))
			return i.writeTo(caller, a[0].(iface), s)
		},
		"fmt.Fprint": func(i *Interp, caller *frame, _ *ssa.Function, a []value) value {
			r := TStr("")
			for _, x := range a[1].([]value) {
				r = StrConcat(r, i.formatValue(caller, x.(iface), 'v'))
			}
			return i.writeTo(caller, a[0].(iface), r)
		},
		"fmt.Fprintln": func(i *Interp, caller *frame, _ *ssa.Function, a []value) value {
			return i.writeTo(caller, a[0].(iface), i.sprintln(caller, a[1].([]value)))
		},
		"fmt.Sprintln": func(i *Interp, caller *frame, _ *ssa.Function, a []value) value {
			return i.sprintln(caller, a[0].([]value))
		},
		"fmt.Println": func(i *Interp, caller *frame, _ *ssa.Function, a []value) value {
			return tuple{TBV(64, 0), iface{}}
		},
		"fmt.Printf": func(i *Interp, caller *frame, _ *ssa.Function, a []value) value {
			return tuple{TBV(64, 0), iface{}}
		},
		"io.WriteString": func(i *Interp, caller *frame, _ *ssa.Function, a []value) value {
			return i.writeTo(caller, a[0].(iface), a[1].(*Term))
		},
		// bytes.Buffer as an append-only string term (used by error rendering; the
		// output writers of C17 are modelled separately)
		"(*bytes.Buffer).Write": func(i *Interp, _ *frame, _ *ssa.Function, a []value) value {
			b := i.builder(a[0])
			t := bytesToTerm(a[1])
			b.t = StrConcat(b.t, t)
			return tuple{StrLen(t), iface{}}
		},
		"(*bytes.Buffer).WriteString": func(i *Interp, _ *frame, _ *ssa.Function, a []value) value {
			b := i.builder(a[0])
			b.t = StrConcat(b.t, a[1].(*Term))
			return tuple{StrLen(a[1].(*Term)), iface{}}
		},
		"(*bytes.Buffer).WriteByte": func(i *Interp, _ *frame, _ *ssa.Function, a []value) value {
			b := i.builder(a[0])
			c := a[1].(*Term)
			if !c.Const {
				fault("bytes.Buffer.WriteByte symbolic")
			}
			b.t = StrConcat(b.t, TStr(string([]byte{byte(c.U)})))
			return iface{}
		},
		"(*bytes.Buffer).WriteRune": func(i *Interp, _ *frame, _ *ssa.Function, a []value) value {
			b := i.builder(a[0])
			c := a[1].(*Term)
			if !c.Const {
				fault("bytes.Buffer.WriteRune symbolic")
			}
			b.t = StrConcat(b.t, TStr(string(rune(c.signed()))))
			return tuple{TBV(64, 1), iface{}}
		},
		"(*bytes.Buffer).String": func(i *Interp, _ *frame, _ *ssa.Function, a []value) value {
			if p, ok := a[0].(*value); ok && p == nil {
				return TStr("<nil>")
			}
			return i.builder(a[0]).t
		},
		"(*bytes.Buffer).Len": func(i *Interp, _ *frame, _ *ssa.Function, a []value) value { return StrLen(i.builder(a[0]).t) },
		"(*bytes.Buffer).Reset": func(i *Interp, _ *frame, _ *ssa.Function, a []value) value {
			i.builder(a[0]).t = TStr("")
			return nil
		},
		"(*bytes.Buffer).Bytes": func(i *Interp, _ *frame, _ *ssa.Function, a []value) value {
			t := i.builder(a[0]).t
			if t.Const {
				bs := make([]value, len(t.S))
				for k := range bs {
					bs[k] = TBV(8, uint64(t.S[k]))
				}
				return bs
			}
			return symBytes{t}
		},
	}
	for _, c := range []string{"Red", "Green", "Yellow", "Blue", "Magenta", "Cyan", "White", "Black", "HiRed", "HiGreen", "HiYellow", "HiBlue", "HiMagenta", "HiCyan", "HiWhite", "HiBlack"} {
		m["github.com/fatih/color."+c+"String"] = func(i *Interp, caller *frame, _ *ssa.Function, a []value) value {
			return i.sprintfC(caller, cstr(a[0]), a[1].([]value))
		}
	}
	for k, v := range m {
		intrinsics[k] = v
	}
	_ = strings.Join
	_ = types.Typ
}

func init() {
	sortSlice := func(i *Interp, caller *frame, _ *ssa.Function, a []value) value {
		itf := a[0].(iface)
		s, ok := itf.v.([]value)
		if !ok {
			fault("sort.Slice on %T", itf.v)
		}
		// insertion sort (stable); every comparison is the interpreted less function
		for x := 1; x < len(s); x++ {
			for y := x; y > 0; y-- {
				r := i.call(caller, 0, a[1], []value{TBV(64, uint64(y)), TBV(64, uint64(y-1))}).(*Term)
				if !i.branch(r) {
					break
				}
				s[y], s[y-1] = s[y-1], s[y]
			}
		}
		return nil
	}
	intrinsics["sort.Slice"] = sortSlice
	intrinsics["sort.SliceStable"] = sortSlice
	intrinsics["sort.Strings"] = func(i *Interp, caller *frame, _ *ssa.Function, a []value) value {
		s := a[0].([]value)
		for x := 1; x < len(s); x++ {
			for y := x; y > 0; y-- {
				if !i.branch(StrLt(s[y].(*Term), s[y-1].(*Term))) {
					break
				}
				s[y], s[y-1] = s[y-1], s[y]
			}
		}
		return nil
	}
}

func (i *Interp) pkgVar(pkg, name string) value {
	if p := i.prog.ImportedPackage(pkg); p != nil {
		if g := p.Var(name); g != nil {
			return *i.global(g)
		}
	}
	fault("package variable %s.%s not found", pkg, name)
	return nil
}

func init() {
	intrinsics["(*bytes.Buffer).ReadString"] = func(i *Interp, _ *frame, _ *ssa.Function, a []value) value {
		b := i.builder(a[0])
		d := a[1].(*Term)
		if !d.Const {
			fault("bytes.Buffer.ReadString symbolic delimiter")
		}
		sep := TStr(string([]byte{byte(d.U)}))
		if i.branch(StrContains(b.t, sep)) {
			if b.t.Const {
				k := strings.Index(b.t.S, sep.S)
				line := b.t.S[:k+1]
				b.t = TStr(b.t.S[k+1:])
				return tuple{TStr(line), iface{}}
			}
			piece := i.fresh("$line", SStr, 0)
			rest := i.fresh("$rest", SStr, 0)
			i.pc = append(i.pc, Eq(b.t, StrConcat(StrConcat(piece, sep), rest)), Not(StrContains(piece, sep)))
			b.t = rest
			return tuple{StrConcat(piece, sep), iface{}}
		}
		line := b.t
		b.t = TStr("")
		return tuple{line, i.pkgVar("io", "EOF")}
	}
	intrinsics["(*bytes.Buffer).WriteTo"] = func(i *Interp, caller *frame, _ *ssa.Function, a []value) value {
		b := i.builder(a[0])
		t := b.t
		b.t = TStr("")
		if t.Const && t.S == "" {
			return tuple{TBV(64, 0), iface{}}
		}
		r := i.writeTo(caller, a[1].(iface), t).(tuple)
		return tuple{r[0], r[1]}
	}
	// the buffer is a memory cell of whoever owns it: its methods are reads / writes of it
	// for the race check (the model keeps no finer-grained cells for its internals)
	for k, orig := range intrinsics {
		if !strings.HasPrefix(k, "(*bytes.Buffer).") {
			continue
		}
		orig := orig
		write := !(strings.HasSuffix(k, ".String") || strings.HasSuffix(k, ".Len") || strings.HasSuffix(k, ".Bytes"))
		intrinsics[k] = func(i *Interp, caller *frame, fn *ssa.Function, a []value) value {
			if p, ok := a[0].(*value); ok && p != nil {
				i.raceAccess(caller, p, write, "a bytes.Buffer")
			}
			return orig(i, caller, fn, a)
		}
	}
	intrinsics["io.Copy"] = func(i *Interp, caller *frame, _ *ssa.Function, a []value) value {
		src := a[1].(iface)
		if p, ok := src.v.(*value); ok && src.t != nil && src.t.String() == "*bytes.Buffer" {
			b := i.builder(p)
			t := b.t
			b.t = TStr("")
			if t.Const && t.S == "" {
				return tuple{TBV(64, 0), iface{}}
			}
			r := i.writeTo(caller, a[0].(iface), t).(tuple)
			return tuple{r[0], r[1]}
		}
		fault("io.Copy from %v", src.t)
		return nil
	}
}

// nativeStruct converts a native Go struct (strings, bools, integers, nil pointers)
// into an interpreter value of the given go/types struct type.
func nativeStruct(v reflect.Value, t types.Type) value {
	st := t.Underlying().(*types.Struct)
	out := make(structure, st.NumFields())
	for k := 0; k < st.NumFields(); k++ {
		f := st.Field(k)
		fv := v.FieldByName(f.Name())
		switch {
		case !fv.IsValid():
			out[k] = zero(f.Type())
		case fv.Kind() == reflect.String:
			out[k] = TStr(fv.String())
		case fv.Kind() == reflect.Bool:
			out[k] = TBool(fv.Bool())
		case fv.CanInt():
			w, _, _ := bvWidth(f.Type())
			out[k] = TBV(w, uint64(fv.Int()))
		default:
			out[k] = zero(f.Type())
		}
	}
	return out
}

func init() {
	intrinsics["net/url.Parse"] = func(i *Interp, _ *frame, fn *ssa.Function, a []value) value {
		s := a[0].(*Term)
		if !s.Const {
			fault("net/url.Parse of a symbolic string")
		}
		u, err := url.Parse(s.S)
		if err != nil {
			return tuple{(*value)(nil), mkError(TStr(err.Error()))}
		}
		pt := fn.Signature.Results().At(0).Type().(*types.Pointer)
		p := new(value)
		*p = nativeStruct(reflect.ValueOf(*u), pt.Elem())
		return tuple{p, iface{}}
	}
	intrinsics["strings.Cut"] = func(i *Interp, _ *frame, _ *ssa.Function, a []value) value {
		s, sep := a[0].(*Term), a[1].(*Term)
		if s.Const && sep.Const {
			b, af, ok := strings.Cut(s.S, sep.S)
			return tuple{TStr(b), TStr(af), TBool(ok)}
		}
		if !i.branch(StrContains(s, sep)) {
			return tuple{s, TStr(""), TBool(false)}
		}
		k := StrIndexOf(s, sep, TInt(0))
		return tuple{StrSubstr(s, TInt(0), k), StrSubstr(s, IntBin("+", k, StrLenInt(sep)), StrLenInt(s)), TBool(true)}
	}
}
