package main

import (
	"fmt"
	"go/token"
	"os"
	"path/filepath"
	"strings"
)

// Happens-before data race detection (FastTrack style) over the interpreted
// go-task code: vector clocks per goroutine and per synchronisation object;
// every load/store of a memory cell and every map read/update performed by
// go-task code is checked against the cell's last write and reads.

type vclock []int32

func (v vclock) get(g int) int32 {
	if g < len(v) {
		return v[g]
	}
	return 0
}

func (v vclock) join(o vclock) vclock {
	if len(o) > len(v) {
		n := make(vclock, len(o))
		copy(n, v)
		v = n
	}
	for k := range o {
		if o[k] > v[k] {
			v[k] = o[k]
		}
	}
	return v
}

func (v vclock) with(g int, c int32) vclock {
	if g >= len(v) {
		n := make(vclock, g+1)
		copy(n, v)
		v = n
	}
	v[g] = c
	return v
}

type accessRec struct {
	g     int
	clock int32
	where string
}

type cellHistory struct {
	write accessRec
	hasW  bool
	reads []accessRec
}

type raceState struct {
	on    bool
	objVC map[interface{}]vclock
	cells map[interface{}]*cellHistory
	seen  map[string]bool
}

func (i *Interp) raceInit(on bool) {
	i.cs.gs[0].vc = vclock{1}
	i.rs = &raceState{on: on, objVC: map[interface{}]vclock{}, cells: map[interface{}]*cellHistory{}, seen: map[string]bool{}}
}

func (i *Interp) vcAcquire(obj interface{}) {
	if i.rs == nil || !i.rs.on || obj == nil {
		return
	}
	g := i.cs.cur
	g.vc = g.vc.join(i.rs.objVC[obj])
}

func (i *Interp) vcRelease(obj interface{}) {
	if i.rs == nil || !i.rs.on || obj == nil {
		return
	}
	g := i.cs.cur
	g.vc = g.vc.with(g.id, g.vc.get(g.id))
	i.rs.objVC[obj] = append(vclock{}, i.rs.objVC[obj]...).join(g.vc)
	g.vc = g.vc.with(g.id, g.vc.get(g.id)+1)
}

func taskFrame(fr *frame) (string, bool) {
	for f := fr; f != nil; f = f.caller {
		if f.fn.Pkg != nil && strings.HasPrefix(f.fn.Pkg.Pkg.Path(), modulePath) {
			name := f.fn.String()
			if strings.Contains(name, "zzsym") {
				return "", false
			}
			return name, !strings.Contains(name, ".zz") && !strings.Contains(name, ".ZZ_")
		}
		if f.fn.Pkg == nil && f.fn.Parent() == nil {
			continue // synthetic wrapper / instantiation: look at the caller
		}
	}
	return "", false
}

// raceAccess records an access of the running goroutine to a memory cell.
func (i *Interp) raceAccess(fr *frame, addr interface{}, write bool, what string, pos ...token.Pos) {
	if i.rs == nil || !i.rs.on || len(i.cs.gs) < 2 || addr == nil || fr == nil {
		return
	}
	where, own := taskFrame(fr)
	if !own {
		return
	}
	if len(pos) > 0 && pos[0].IsValid() {
		p := i.prog.Fset.Position(pos[0])
		where += fmt.Sprintf(" (%s:%d)", filepath.Base(p.Filename), p.Line)
	}
	g := i.cs.cur
	me := accessRec{g: g.id, clock: g.vc.get(g.id), where: where}
	h := i.rs.cells[addr]
	if h == nil {
		h = &cellHistory{}
		i.rs.cells[addr] = h
	}
	report := func(prev accessRec, kind string) {
		key := kind + "|" + prev.where + "|" + where
		if i.rs.seen[key] {
			return
		}
		i.rs.seen[key] = true
		a, b := prev.where, where
		if a > b {
			a, b = b, a
		}
		if os.Getenv("GOSMT_RACE_DEBUG") != "" {
			fmt.Fprintf(os.Stderr, "RACE %s: prev g%d clock %d at %s; now g%d vc %v at %s\n", kind, prev.g, prev.clock, prev.where, g.id, g.vc, where)
		}
		i.violations = append(i.violations, Violation{Kind: "race", Label: fmt.Sprintf("%s on %s between %s and %s", kind, what, a, b)})
	}
	ordered := func(prev accessRec) bool { return prev.g == g.id || prev.clock <= g.vc.get(prev.g) }
	if h.hasW && !ordered(h.write) {
		if write {
			report(h.write, "write-write race")
		} else {
			report(h.write, "read-write race")
		}
	}
	if write {
		for _, r := range h.reads {
			if !ordered(r) {
				report(r, "read-write race")
			}
		}
		h.write, h.hasW = me, true
		h.reads = h.reads[:0]
	} else {
		for k := range h.reads {
			if h.reads[k].g == g.id {
				h.reads[k] = me
				return
			}
		}
		h.reads = append(h.reads, me)
	}
}
