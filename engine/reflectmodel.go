package main

import (
	"fmt"
	"go/types"

	"golang.org/x/tools/go/ssa"
)

// A model of the part of package reflect that internal/deepcopy.TraverseStringsFunc uses:
// values carry their (static or dynamic) go/types type, addressability and the "obtained
// through an unexported field" flag, and the operations panic where reflect panics (Set on
// a read-only or unaddressable value, IsNil on a kind that cannot be nil, ...). Everything
// else of reflect is not encoded (an engine fault).

type reflV struct {
	t    types.Type // nil: the zero (invalid) Value
	cell *value     // storage when addressable
	val  value      // the value when not addressable
	ro   bool       // obtained using an unexported field
}

type reflT struct{ t types.Type }

func (r *reflV) get() value {
	if r.cell != nil {
		return *r.cell
	}
	return r.val
}

// reflect.Kind numbers
const (
	rkInvalid   = 0
	rkBool      = 1
	rkInt       = 2
	rkFloat64   = 14
	rkInterface = 20
	rkMap       = 21
	rkPtr       = 22
	rkSlice     = 23
	rkString    = 24
	rkStruct    = 25
	rkFunc      = 19
	rkChan      = 18
	rkArray     = 17
)

var rkNames = map[int]string{rkInvalid: "invalid", rkBool: "bool", rkInt: "int", rkFloat64: "float64", rkInterface: "interface", rkMap: "map", rkPtr: "ptr", rkSlice: "slice", rkString: "string", rkStruct: "struct", rkFunc: "func", rkChan: "chan", rkArray: "array"}

func reflKind(t types.Type) int {
	if t == nil {
		return rkInvalid
	}
	switch u := t.Underlying().(type) {
	case *types.Basic:
		switch {
		case u.Info()&types.IsBoolean != 0:
			return rkBool
		case u.Info()&types.IsString != 0:
			return rkString
		case u.Info()&types.IsFloat != 0:
			return rkFloat64
		case u.Info()&types.IsInteger != 0:
			// reflect distinguishes the integer kinds; the callers here only compare
			// against the composite kinds and String
			return rkInt + int(u.Kind()-types.Int)
		}
	case *types.Pointer:
		return rkPtr
	case *types.Interface:
		return rkInterface
	case *types.Struct:
		return rkStruct
	case *types.Slice:
		return rkSlice
	case *types.Map:
		return rkMap
	case *types.Signature:
		return rkFunc
	case *types.Chan:
		return rkChan
	case *types.Array:
		return rkArray
	}
	fault("reflect model: kind of %v", t)
	return 0
}

func reflPanic(format string, a ...interface{}) {
	panic(targetPanic{v: iface{t: types.Typ[types.String], v: TStr(fmt.Sprintf(format, a...))}})
}

func rv(v value) *reflV {
	r, ok := v.(*reflV)
	if !ok {
		if s, isStruct := v.(structure); isStruct && len(s) > 0 {
			return &reflV{} // the zero reflect.Value
		}
		fault("reflect model: not a reflect.Value: %T", v)
	}
	return r
}

func (r *reflV) mustBeAssignable(op string) {
	if r.t == nil {
		reflPanic("reflect: call of reflect.Value.%s on zero Value", op)
	}
	if r.ro {
		reflPanic("reflect: reflect.Value.%s using value obtained using unexported field", op)
	}
	if r.cell == nil {
		reflPanic("reflect: reflect.Value.%s using unaddressable value", op)
	}
}

func init() {
	m := map[string]intrinsic{
		"reflect.ValueOf": func(i *Interp, _ *frame, _ *ssa.Function, a []value) value {
			x := a[0].(iface)
			if x.t == nil {
				return &reflV{}
			}
			return &reflV{t: x.t, val: x.v}
		},
		"(reflect.Value).Kind": func(i *Interp, _ *frame, _ *ssa.Function, a []value) value {
			return TBV(64, uint64(reflKind(rv(a[0]).t)))
		},
		"(reflect.Value).IsValid": func(i *Interp, _ *frame, _ *ssa.Function, a []value) value {
			return TBool(rv(a[0]).t != nil)
		},
		"(reflect.Value).Type": func(i *Interp, _ *frame, _ *ssa.Function, a []value) value {
			r := rv(a[0])
			if r.t == nil {
				reflPanic("reflect: call of reflect.Value.Type on zero Value")
			}
			return iface{t: reflTypeMarker, v: &reflT{r.t}}
		},
		"reflect.New": func(i *Interp, _ *frame, _ *ssa.Function, a []value) value {
			t := a[0].(iface).v.(*reflT).t
			p := new(value)
			*p = zero(t)
			return &reflV{t: types.NewPointer(t), val: p}
		},
		"(reflect.Value).Elem": func(i *Interp, _ *frame, _ *ssa.Function, a []value) value {
			r := rv(a[0])
			switch reflKind(r.t) {
			case rkPtr:
				p, _ := r.get().(*value)
				if p == nil {
					return &reflV{}
				}
				return &reflV{t: r.t.Underlying().(*types.Pointer).Elem(), cell: p, ro: r.ro}
			case rkInterface:
				x, _ := r.get().(iface)
				if x.t == nil {
					return &reflV{}
				}
				return &reflV{t: x.t, val: x.v, ro: r.ro}
			}
			reflPanic("reflect: call of reflect.Value.Elem on %s Value", rkNames[reflKind(r.t)])
			return nil
		},
		"(reflect.Value).Set": func(i *Interp, _ *frame, _ *ssa.Function, a []value) value {
			r, x := rv(a[0]), rv(a[1])
			r.mustBeAssignable("Set")
			if x.ro {
				reflPanic("reflect: reflect.Value.Set using value obtained using unexported field")
			}
			if x.t == nil {
				reflPanic("reflect: call of reflect.Value.Set on zero Value")
			}
			v := copyVal(x.get())
			if _, isIface := r.t.Underlying().(*types.Interface); isIface {
				if _, srcIface := x.t.Underlying().(*types.Interface); !srcIface {
					v = iface{t: x.t, v: v}
				}
			} else if !types.AssignableTo(x.t, r.t) {
				reflPanic("reflect.Set: value of type %v is not assignable to type %v", x.t, r.t)
			}
			*r.cell = v
			return nil
		},
		"(reflect.Value).CanSet": func(i *Interp, _ *frame, _ *ssa.Function, a []value) value {
			r := rv(a[0])
			return TBool(r.t != nil && r.cell != nil && !r.ro)
		},
		"(reflect.Value).NumField": func(i *Interp, _ *frame, _ *ssa.Function, a []value) value {
			r := rv(a[0])
			st, ok := r.t.Underlying().(*types.Struct)
			if !ok {
				reflPanic("reflect: call of reflect.Value.NumField on %s Value", rkNames[reflKind(r.t)])
			}
			return TBV(64, uint64(st.NumFields()))
		},
		"(reflect.Value).Field": func(i *Interp, _ *frame, _ *ssa.Function, a []value) value {
			r := rv(a[0])
			st, ok := r.t.Underlying().(*types.Struct)
			if !ok {
				reflPanic("reflect: call of reflect.Value.Field on %s Value", rkNames[reflKind(r.t)])
			}
			k := int(a[1].(*Term).signed())
			if k < 0 || k >= st.NumFields() {
				reflPanic("reflect: Field index out of range")
			}
			f := st.Field(k)
			out := &reflV{t: f.Type(), ro: r.ro || !f.Exported()}
			if r.cell != nil {
				out.cell = &(*r.cell).(structure)[k]
			} else {
				out.val = r.val.(structure)[k]
			}
			return out
		},
		"reflect.MakeSlice": func(i *Interp, _ *frame, _ *ssa.Function, a []value) value {
			t := a[0].(iface).v.(*reflT).t
			n := int(a[1].(*Term).signed())
			s := make([]value, n)
			for k := range s {
				s[k] = zero(t.Underlying().(*types.Slice).Elem())
			}
			return &reflV{t: t, val: s}
		},
		"(reflect.Value).Len": func(i *Interp, _ *frame, _ *ssa.Function, a []value) value {
			r := rv(a[0])
			switch x := r.get().(type) {
			case []value:
				return TBV(64, uint64(len(x)))
			case *mapV:
				if x == nil {
					return TBV(64, 0)
				}
				return TBV(64, uint64(len(x.keys)))
			case array:
				return TBV(64, uint64(len(x)))
			}
			fault("reflect model: Len of %T", r.get())
			return nil
		},
		"(reflect.Value).Cap": func(i *Interp, _ *frame, _ *ssa.Function, a []value) value {
			r := rv(a[0])
			if x, ok := r.get().([]value); ok {
				return TBV(64, uint64(len(x)))
			}
			fault("reflect model: Cap of %T", r.get())
			return nil
		},
		"(reflect.Value).Index": func(i *Interp, _ *frame, _ *ssa.Function, a []value) value {
			r := rv(a[0])
			k := int(a[1].(*Term).signed())
			switch x := r.get().(type) {
			case []value:
				if k < 0 || k >= len(x) {
					reflPanic("reflect: slice index out of range")
				}
				return &reflV{t: r.t.Underlying().(*types.Slice).Elem(), cell: &x[k], ro: r.ro}
			}
			fault("reflect model: Index of %T", r.get())
			return nil
		},
		"reflect.MakeMap": func(i *Interp, _ *frame, _ *ssa.Function, a []value) value {
			return &reflV{t: a[0].(iface).v.(*reflT).t, val: &mapV{}}
		},
		"(reflect.Value).MapKeys": func(i *Interp, _ *frame, _ *ssa.Function, a []value) value {
			r := rv(a[0])
			m, _ := r.get().(*mapV)
			kt := r.t.Underlying().(*types.Map).Key()
			var out []value
			if m != nil {
				for _, k := range m.keys {
					out = append(out, &reflV{t: kt, val: k, ro: r.ro})
				}
			}
			return out
		},
		"(reflect.Value).MapIndex": func(i *Interp, _ *frame, _ *ssa.Function, a []value) value {
			r, key := rv(a[0]), rv(a[1])
			m, _ := r.get().(*mapV)
			if m != nil {
				for k := range m.keys {
					if c := equals(m.keys[k], key.get()); c.Const && c.B {
						return &reflV{t: r.t.Underlying().(*types.Map).Elem(), val: m.vals[k], ro: r.ro}
					}
				}
			}
			return &reflV{}
		},
		"(reflect.Value).SetMapIndex": func(i *Interp, _ *frame, _ *ssa.Function, a []value) value {
			r, key, x := rv(a[0]), rv(a[1]), rv(a[2])
			if r.ro || key.ro || x.ro {
				reflPanic("reflect: reflect.Value.SetMapIndex using value obtained using unexported field")
			}
			m, _ := r.get().(*mapV)
			if m == nil {
				reflPanic("assignment to entry in nil map")
			}
			v := copyVal(x.get())
			if _, isIface := r.t.Underlying().(*types.Map).Elem().Underlying().(*types.Interface); isIface {
				if _, srcIface := x.t.Underlying().(*types.Interface); !srcIface {
					v = iface{t: x.t, v: v}
				}
			}
			for k := range m.keys {
				if c := equals(m.keys[k], key.get()); c.Const && c.B {
					m.vals[k] = v
					return nil
				}
			}
			m.keys = append(m.keys, key.get())
			m.vals = append(m.vals, v)
			return nil
		},
		"(reflect.Value).IsNil": func(i *Interp, _ *frame, _ *ssa.Function, a []value) value {
			r := rv(a[0])
			switch reflKind(r.t) {
			case rkPtr:
				p, _ := r.get().(*value)
				return TBool(p == nil)
			case rkInterface:
				x, _ := r.get().(iface)
				return TBool(x.t == nil)
			case rkMap:
				m, _ := r.get().(*mapV)
				return TBool(m == nil)
			case rkSlice:
				s, _ := r.get().([]value)
				return TBool(s == nil)
			case rkFunc, rkChan:
				return TBool(r.get() == nil)
			}
			reflPanic("reflect: call of reflect.Value.IsNil on %s Value", rkNames[reflKind(r.t)])
			return nil
		},
		"(reflect.Value).String": func(i *Interp, _ *frame, _ *ssa.Function, a []value) value {
			r := rv(a[0])
			if reflKind(r.t) == rkString {
				return r.get()
			}
			return TStr("<" + fmt.Sprint(r.t) + " Value>")
		},
		"(reflect.Value).Interface": func(i *Interp, _ *frame, _ *ssa.Function, a []value) value {
			r := rv(a[0])
			if r.t == nil {
				reflPanic("reflect: call of reflect.Value.Interface on zero Value")
			}
			if r.ro {
				reflPanic("reflect.Value.Interface: cannot return value obtained from unexported field or method")
			}
			if x, ok := r.get().(iface); ok {
				return x
			}
			return iface{t: r.t, v: r.get()}
		},
	}
	for k, v := range m {
		intrinsics[k] = v
	}
}

// reflTypeMarker is the dynamic type of the engine's reflect.Type values.
var reflTypeMarker types.Type = types.NewNamed(types.NewTypeName(0, nil, "reflect.rtype(model)", nil), types.NewStruct(nil, nil), nil)
