package main

import (
	"bufio"
	"fmt"
	"io"
	"os"
	"os/exec"
	"sort"
	"strings"
	"sync"
	"time"
)

var globalCache sync.Map

type Solver struct {
	cmd     *exec.Cmd
	in      io.WriteCloser
	out     *bufio.Reader
	cache   map[string]string
	Queries int
	CacheHits int
	Sat     int
	Unsat   int
	Unknown int
	Time    time.Duration
	log     *os.File
}

var solverBin = func() string {
	if b := os.Getenv("GOSMT_SOLVER"); b != "" {
		return b
	}
	return "z3"
}()

func init() {
	out, _ := exec.Command(solverBin, "--version").Output()
	solverVer = strings.TrimSpace(string(out))
}

func NewSolver() *Solver {
	cmd := exec.Command(solverBin, "-in")
	in, _ := cmd.StdinPipe()
	outp, _ := cmd.StdoutPipe()
	cmd.Stderr = cmd.Stdout
	if err := cmd.Start(); err != nil {
		panic(err)
	}
	s := &Solver{cmd: cmd, in: in, out: bufio.NewReader(outp), cache: map[string]string{}}
	fmt.Fprintln(in, "(set-option :produce-models true)")
	fmt.Fprintln(in, "(set-option :timeout 10000)")
	if f := os.Getenv("GOSMT_LOG"); f != "" {
		s.log, _ = os.Create(f)
	}
	return s
}

func sortDecl(t *Term) string {
	switch t.Sort {
	case SBool:
		return "Bool"
	case SBV:
		return fmt.Sprintf("(_ BitVec %d)", t.W)
	default:
		return "String"
	}
}

// termVars returns (cached) the variable names of t.
func termVars(t *Term) map[string]*Term {
	if t.vs == nil {
		t.vs = map[string]*Term{}
		t.vars(t.vs)
	}
	return t.vs
}

// slice keeps only the conjuncts transitively sharing variables with focus.
func sliceFor(pc []*Term, focus *Term) []*Term {
	need := map[string]bool{}
	for n := range termVars(focus) {
		need[n] = true
	}
	used := make([]bool, len(pc))
	changed := true
	for changed {
		changed = false
		for k, c := range pc {
			if used[k] {
				continue
			}
			hit := false
			for n := range termVars(c) {
				if need[n] {
					hit = true
					break
				}
			}
			if hit {
				used[k] = true
				changed = true
				for n := range termVars(c) {
					need[n] = true
				}
			}
		}
	}
	var out []*Term
	for k, c := range pc {
		if used[k] {
			out = append(out, c)
		}
	}
	return append(out, focus)
}

// CheckFocus decides pc ∧ focus assuming pc alone is satisfiable (the
// executor maintains that invariant), using only the relevant slice of pc.
func (s *Solver) CheckFocus(pc []*Term, focus *Term) string {
	r, _ := s.Check(sliceFor(pc, focus), false)
	return r
}

// Check returns "sat", "unsat" or "unknown" for the conjunction of asserts.
func (s *Solver) Check(asserts []*Term, wantModel bool) (string, map[string]string) {
	vars := map[string]*Term{}
	var body strings.Builder
	for _, a := range asserts {
		if a.Const {
			if !a.B {
				return "unsat", nil
			}
			continue
		}
		a.vars(vars)
		fmt.Fprintf(&body, "(assert %s)\n", a.String())
	}
	names := make([]string, 0, len(vars))
	for n := range vars {
		names = append(names, n)
	}
	sort.Strings(names)
	var decl strings.Builder
	for _, n := range names {
		fmt.Fprintf(&decl, "(declare-const |%s| %s)\n", n, sortDecl(vars[n]))
	}
	key := decl.String() + body.String()
	if !wantModel {
		if r, ok := globalCache.Load(key); ok {
			s.CacheHits++
			return r.(string), nil
		}
	}
	start := time.Now()
	s.Queries++
	if s.log != nil {
		fmt.Fprintf(s.log, "; query %d\n(push 1)\n%s(check-sat)\n(pop 1)\n", s.Queries, key)
	}
	fmt.Fprintf(s.in, "(push 1)\n%s(check-sat)\n", key)
	res := s.readLine()
	if s.log != nil {
		fmt.Fprintf(s.log, "; -> %s in %v\n", res, time.Since(start))
	}
	var model map[string]string
	if res == "sat" && wantModel {
		model = map[string]string{}
		for _, n := range names {
			fmt.Fprintf(s.in, "(get-value (|%s|))\n", n)
			l := s.readSexp()
			model[n] = decodeModelValue(l, vars[n])
		}
	}
	fmt.Fprintln(s.in, "(pop 1)")
	s.Time += time.Since(start)
	switch res {
	case "sat":
		s.Sat++
	case "unsat":
		s.Unsat++
	default:
		s.Unknown++
		res = "unknown"
	}
	if res != "unknown" {
		globalCache.Store(key, res)
	}
	return res, model
}

func (s *Solver) readLine() string {
	for {
		l, err := s.out.ReadString('\n')
		if err != nil {
			return "error"
		}
		l = strings.TrimSpace(l)
		if l == "" {
			continue
		}
		if strings.HasPrefix(l, "(error") {
			return "error:" + l
		}
		return l
	}
}

func (s *Solver) readSexp() string {
	var b strings.Builder
	depth := 0
	started := false
	for {
		c, err := s.out.ReadByte()
		if err != nil {
			return b.String()
		}
		b.WriteByte(c)
		if c == '(' {
			depth++
			started = true
		} else if c == ')' {
			depth--
		}
		if started && depth == 0 {
			return strings.TrimSpace(b.String())
		}
	}
}

func (s *Solver) Close() { s.in.Close(); s.cmd.Wait() }

// CheckAll solves the whole path condition component by component (constraint
// independence) and returns the union of the models.
func (s *Solver) CheckAll(pc []*Term) (string, map[string]string) {
	n := len(pc)
	comp := make([]int, n)
	for k := range comp {
		comp[k] = k
	}
	var find func(int) int
	find = func(x int) int {
		for comp[x] != x {
			comp[x] = comp[comp[x]]
			x = comp[x]
		}
		return x
	}
	owner := map[string]int{}
	for k, c := range pc {
		for v := range termVars(c) {
			if o, ok := owner[v]; ok {
				comp[find(k)] = find(o)
			} else {
				owner[v] = k
			}
		}
	}
	groups := map[int][]*Term{}
	var order []int
	for k, c := range pc {
		r := find(k)
		if _, ok := groups[r]; !ok {
			order = append(order, r)
		}
		groups[r] = append(groups[r], c)
	}
	model := map[string]string{}
	result := "sat"
	for _, r := range order {
		res, m := s.Check(groups[r], true)
		if res == "unsat" {
			return "unsat", nil
		}
		if res != "sat" {
			result = "unknown"
		}
		for k, v := range m {
			model[k] = v
		}
	}
	return result, model
}

// decodeModelValue turns a (get-value) answer into a plain representation:
// strings unescaped, bit-vectors as unsigned decimal, booleans true/false.
func decodeModelValue(sexp string, v *Term) string {
	// sexp looks like ((|name| VALUE))
	s := strings.TrimSpace(sexp)
	s = strings.TrimPrefix(s, "((")
	s = strings.TrimSuffix(s, "))")
	if k := strings.Index(s, "| "); k >= 0 && strings.HasPrefix(s, "|") {
		s = s[k+2:]
	} else if k := strings.Index(s, " "); k >= 0 {
		s = s[k+1:]
	}
	s = strings.TrimSpace(s)
	switch v.Sort {
	case SBool:
		return s
	case SBV:
		if strings.HasPrefix(s, "#x") {
			var u uint64
			fmt.Sscanf(s[2:], "%x", &u)
			return fmt.Sprint(u)
		}
		if strings.HasPrefix(s, "#b") {
			var u uint64
			for _, c := range s[2:] {
				u = u<<1 | uint64(c-'0')
			}
			return fmt.Sprint(u)
		}
		return s
	case SStr:
		return unescapeSMT(s)
	}
	return s
}

func unescapeSMT(s string) string {
	if len(s) >= 2 && s[0] == '"' && s[len(s)-1] == '"' {
		s = s[1 : len(s)-1]
	}
	var b strings.Builder
	for i := 0; i < len(s); i++ {
		if s[i] == '"' && i+1 < len(s) && s[i+1] == '"' {
			b.WriteByte('"')
			i++
			continue
		}
		if s[i] == '\\' && i+1 < len(s) && s[i+1] == 'u' {
			// \u{X} or \uXXXX
			j := i + 2
			var hex string
			if j < len(s) && s[j] == '{' {
				e := strings.IndexByte(s[j:], '}')
				if e > 0 {
					hex = s[j+1 : j+e]
					i = j + e
				}
			} else if j+4 <= len(s) {
				hex = s[j : j+4]
				i = j + 3
			}
			if hex != "" {
				var u uint32
				fmt.Sscanf(hex, "%x", &u)
				if u < 256 {
					b.WriteByte(byte(u))
				} else {
					b.WriteRune(rune(u))
				}
				continue
			}
		}
		if s[i] == '\\' && i+1 < len(s) && s[i+1] == 'x' && i+3 < len(s) {
			var u uint32
			fmt.Sscanf(s[i+2:i+4], "%x", &u)
			b.WriteByte(byte(u))
			i += 3
			continue
		}
		b.WriteByte(s[i])
	}
	return b.String()
}
