package main

import (
	"bufio"
	"fmt"
	"io"
	"os"
	"os/exec"
	"sort"
	"strings"
	"sync"
	"time"
)

var globalCache sync.Map

// proc is one solver process driven over pipes (kept alive, push/pop per query).
type proc struct {
	kind string // "cvc5" | "z3" | "z3-new"
	cmd  *exec.Cmd
	in   io.WriteCloser
	out  *bufio.Reader
}

func startProc(kind string) *proc {
	var cmd *exec.Cmd
	switch kind {
	case "cvc5":
		cmd = exec.Command("cvc5", "--incremental", "--strings-exp", "--produce-models", "--tlimit-per=10000", "--lang=smt2")
	default:
		cmd = exec.Command(kind, "-in")
	}
	in, _ := cmd.StdinPipe()
	outp, _ := cmd.StdoutPipe()
	cmd.Stderr = cmd.Stdout
	if err := cmd.Start(); err != nil {
		panic(err)
	}
	p := &proc{kind: kind, cmd: cmd, in: in, out: bufio.NewReader(outp)}
	if kind == "cvc5" {
		fmt.Fprintln(in, "(set-logic ALL)")
	} else {
		fmt.Fprintln(in, "(set-option :produce-models true)")
		fmt.Fprintln(in, "(set-option :timeout 10000)")
	}
	return p
}

// Solver is the per-worker solver front end: a primary back end (cvc5, which
// is by far the fastest of the three on the string constraints these harnesses
// produce) and a secondary one (z3 5.1) that is asked when the primary answers
// unknown or errors. Any answer that is not sat/unsat from both is "unknown".
type Solver struct {
	primary   *proc
	secondary *proc
	Queries   int
	CacheHits int
	Sat       int
	Unsat     int
	Unknown   int
	Fallbacks int
	Time      time.Duration
	log       *os.File
}

var primaryKind, secondaryKind = func() (string, string) {
	if b := os.Getenv("GOSMT_SOLVER"); b != "" {
		if b == "cvc5" {
			return "cvc5", "z3-new"
		}
		return b, "cvc5"
	}
	return "cvc5", "z3-new"
}()

func init() {
	out, _ := exec.Command("cvc5", "--version").Output()
	v := strings.SplitN(string(out), "\n", 2)[0]
	out2, _ := exec.Command("z3-new", "--version").Output()
	out3, _ := exec.Command("z3", "--version").Output()
	solverVer = fmt.Sprintf("primary=%s secondary=%s [%s | z3-new: %s | z3: %s]", primaryKind, secondaryKind, strings.TrimSpace(v), strings.TrimSpace(string(out2)), strings.TrimSpace(string(out3)))
}

func NewSolver() *Solver {
	s := &Solver{primary: startProc(primaryKind)}
	if f := os.Getenv("GOSMT_LOG"); f != "" {
		s.log, _ = os.OpenFile(f, os.O_CREATE|os.O_APPEND|os.O_WRONLY, 0o644)
	}
	return s
}

func sortDecl(t *Term) string {
	switch t.Sort {
	case SBool:
		return "Bool"
	case SBV:
		return fmt.Sprintf("(_ BitVec %d)", t.W)
	case SInt:
		return "Int"
	default:
		return "String"
	}
}

// termVars returns (cached) the variable names of t.
func termVars(t *Term) map[string]*Term {
	if t.vs == nil {
		t.vs = map[string]*Term{}
		t.vars(t.vs)
	}
	return t.vs
}

// slice keeps only the conjuncts transitively sharing variables with focus.
func sliceFor(pc []*Term, focus *Term) []*Term {
	need := map[string]bool{}
	for n := range termVars(focus) {
		need[n] = true
	}
	used := make([]bool, len(pc))
	changed := true
	for changed {
		changed = false
		for k, c := range pc {
			if used[k] {
				continue
			}
			hit := false
			for n := range termVars(c) {
				if need[n] {
					hit = true
					break
				}
			}
			if hit {
				used[k] = true
				changed = true
				for n := range termVars(c) {
					need[n] = true
				}
			}
		}
	}
	var out []*Term
	for k, c := range pc {
		if used[k] {
			out = append(out, c)
		}
	}
	return append(out, focus)
}

// CheckFocus decides pc ∧ focus assuming pc alone is satisfiable (the
// executor maintains that invariant), using only the relevant slice of pc.
func (s *Solver) CheckFocus(pc []*Term, focus *Term) string {
	r, _ := s.Check(sliceFor(pc, focus), false)
	return r
}

// Check returns "sat", "unsat" or "unknown" for the conjunction of asserts.
func (s *Solver) Check(asserts []*Term, wantModel bool) (string, map[string]string) {
	vars := map[string]*Term{}
	var body strings.Builder
	seen := map[string]bool{}
	for _, a := range asserts {
		if a.Const {
			if !a.B {
				return "unsat", nil
			}
			continue
		}
		if seen[a.String()] {
			continue
		}
		seen[a.String()] = true
		a.vars(vars)
		fmt.Fprintf(&body, "(assert %s)\n", a.String())
	}
	names := make([]string, 0, len(vars))
	for n := range vars {
		names = append(names, n)
	}
	sort.Strings(names)
	var decl strings.Builder
	for _, n := range names {
		fmt.Fprintf(&decl, "(declare-const |%s| %s)\n", n, sortDecl(vars[n]))
	}
	key := decl.String() + body.String()
	if !wantModel {
		if r, ok := globalCache.Load(key); ok {
			s.CacheHits++
			return r.(string), nil
		}
	}
	start := time.Now()
	s.Queries++
	if s.log != nil {
		fmt.Fprintf(s.log, "; query %d\n(push 1)\n%s(check-sat)\n(pop 1)\n", s.Queries, key)
	}
	res, model := s.primary.ask(key, names, vars, wantModel)
	if res != "sat" && res != "unsat" {
		if s.secondary == nil {
			s.secondary = startProc(secondaryKind)
		}
		s.Fallbacks++
		res, model = s.secondary.ask(key, names, vars, wantModel)
	}
	if s.log != nil {
		fmt.Fprintf(s.log, "; -> %s in %v\n", res, time.Since(start))
	}
	s.Time += time.Since(start)
	switch res {
	case "sat":
		s.Sat++
	case "unsat":
		s.Unsat++
	default:
		s.Unknown++
		res = "unknown"
	}
	if res != "unknown" {
		globalCache.Store(key, res)
	}
	return res, model
}

// CrossCheck asks the other back end the same question (thorough tier).
func (s *Solver) CrossCheck(asserts []*Term) string {
	vars := map[string]*Term{}
	var body strings.Builder
	for _, a := range asserts {
		if a.Const {
			if !a.B {
				return "unsat"
			}
			continue
		}
		a.vars(vars)
		fmt.Fprintf(&body, "(assert %s)\n", a.String())
	}
	names := sortedKeys(vars)
	var decl strings.Builder
	for _, n := range names {
		fmt.Fprintf(&decl, "(declare-const |%s| %s)\n", n, sortDecl(vars[n]))
	}
	if s.secondary == nil {
		s.secondary = startProc(secondaryKind)
	}
	r, _ := s.secondary.ask(decl.String()+body.String(), names, vars, false)
	return r
}

func (p *proc) ask(key string, names []string, vars map[string]*Term, wantModel bool) (string, map[string]string) {
	fmt.Fprintf(p.in, "(push 1)\n%s(check-sat)\n", key)
	res := p.readLine()
	var model map[string]string
	if res == "sat" && wantModel {
		model = map[string]string{}
		for _, n := range names {
			fmt.Fprintf(p.in, "(get-value (|%s|))\n", n)
			l := p.readSexp()
			model[n] = decodeModelValue(l, vars[n])
		}
	}
	fmt.Fprintln(p.in, "(pop 1)")
	return res, model
}

func (s *proc) readLine() string {
	for {
		l, err := s.out.ReadString('\n')
		if err != nil {
			return "error"
		}
		l = strings.TrimSpace(l)
		if l == "" {
			continue
		}
		if strings.HasPrefix(l, "(error") {
			return "error:" + l
		}
		if l == "sat" || l == "unsat" || l == "unknown" || l == "timeout" {
			return l
		}
		// warnings and other chatter are skipped
	}
}

func (s *proc) readSexp() string {
	var b strings.Builder
	depth := 0
	started := false
	inStr := false
	for {
		c, err := s.out.ReadByte()
		if err != nil {
			return b.String()
		}
		b.WriteByte(c)
		if c == '"' {
			inStr = !inStr
		}
		if inStr {
			continue
		}
		if c == '(' {
			depth++
			started = true
		} else if c == ')' {
			depth--
		}
		if started && depth == 0 {
			return strings.TrimSpace(b.String())
		}
	}
}

func (s *Solver) Close() {
	for _, p := range []*proc{s.primary, s.secondary} {
		if p != nil {
			p.in.Close()
			p.cmd.Process.Kill()
			p.cmd.Wait()
		}
	}
}

// CheckAll solves the whole path condition component by component (constraint
// independence) and returns the union of the models.
func (s *Solver) CheckAll(pc []*Term) (string, map[string]string) {
	n := len(pc)
	comp := make([]int, n)
	for k := range comp {
		comp[k] = k
	}
	var find func(int) int
	find = func(x int) int {
		for comp[x] != x {
			comp[x] = comp[comp[x]]
			x = comp[x]
		}
		return x
	}
	owner := map[string]int{}
	for k, c := range pc {
		for v := range termVars(c) {
			if o, ok := owner[v]; ok {
				comp[find(k)] = find(o)
			} else {
				owner[v] = k
			}
		}
	}
	groups := map[int][]*Term{}
	var order []int
	for k, c := range pc {
		r := find(k)
		if _, ok := groups[r]; !ok {
			order = append(order, r)
		}
		groups[r] = append(groups[r], c)
	}
	model := map[string]string{}
	result := "sat"
	for _, r := range order {
		res, m := s.Check(groups[r], true)
		if res == "unsat" {
			return "unsat", nil
		}
		if res != "sat" {
			result = "unknown"
		}
		for k, v := range m {
			model[k] = v
		}
	}
	return result, model
}

// decodeModelValue turns a (get-value) answer into a plain representation:
// strings unescaped, bit-vectors as unsigned decimal, booleans true/false.
func decodeModelValue(sexp string, v *Term) string {
	// sexp looks like ((|name| VALUE))
	s := strings.TrimSpace(sexp)
	s = strings.TrimPrefix(s, "((")
	s = strings.TrimSuffix(s, "))")
	if strings.HasPrefix(s, "|") {
		if k := strings.Index(s[1:], "|"); k >= 0 {
			s = s[k+2:]
		}
	} else if k := strings.Index(s, " "); k >= 0 {
		s = s[k+1:]
	}
	s = strings.TrimSpace(s)
	switch v.Sort {
	case SBool:
		return s
	case SBV:
		if strings.HasPrefix(s, "#x") {
			var u uint64
			fmt.Sscanf(s[2:], "%x", &u)
			return fmt.Sprint(u)
		}
		if strings.HasPrefix(s, "#b") {
			var u uint64
			for _, c := range s[2:] {
				u = u<<1 | uint64(c-'0')
			}
			return fmt.Sprint(u)
		}
		return s
	case SStr:
		return unescapeSMT(s)
	}
	return s
}

func unescapeSMT(s string) string {
	if len(s) >= 2 && s[0] == '"' && s[len(s)-1] == '"' {
		s = s[1 : len(s)-1]
	}
	var b strings.Builder
	for i := 0; i < len(s); i++ {
		if s[i] == '"' && i+1 < len(s) && s[i+1] == '"' {
			b.WriteByte('"')
			i++
			continue
		}
		if s[i] == '\\' && i+1 < len(s) && s[i+1] == 'u' {
			// \u{X} or \uXXXX
			j := i + 2
			var hex string
			if j < len(s) && s[j] == '{' {
				e := strings.IndexByte(s[j:], '}')
				if e > 0 {
					hex = s[j+1 : j+e]
					i = j + e
				}
			} else if j+4 <= len(s) {
				hex = s[j : j+4]
				i = j + 3
			}
			if hex != "" {
				var u uint32
				fmt.Sscanf(hex, "%x", &u)
				if u < 256 {
					b.WriteByte(byte(u))
				} else {
					b.WriteRune(rune(u))
				}
				continue
			}
		}
		if s[i] == '\\' && i+1 < len(s) && s[i+1] == 'x' && i+3 < len(s) {
			var u uint32
			fmt.Sscanf(s[i+2:i+4], "%x", &u)
			b.WriteByte(byte(u))
			i += 3
			continue
		}
		b.WriteByte(s[i])
	}
	return b.String()
}
