package main

import (
	"go/types"
	"regexp"

	"golang.org/x/tools/go/ssa"
)

// opaque wraps a native Go object that interpreted code only handles by reference.
type opaque struct {
	kind string
	re   *regexp.Regexp
	pat  *Term
}

func regexpOf(v value) *opaque {
	p, ok := v.(*value)
	if !ok || p == nil {
		panic(targetPanic{v: iface{t: types.Typ[types.String], v: TStr("runtime error: invalid memory address or nil pointer dereference (nil *regexp.Regexp)")}})
	}
	o, ok := (*p).(*opaque)
	if !ok {
		fault("regexp method on non-regexp value %T", *p)
	}
	return o
}

func init() {
	compile := func(must bool) intrinsic {
		return func(i *Interp, _ *frame, _ *ssa.Function, a []value) value {
			pat := a[0].(*Term)
			if !pat.Const {
				return i.compileSymbolicRegexp(pat, must)
			}
			re, err := regexp.Compile(pat.S)
			if err != nil {
				if must {
					panic(targetPanic{v: iface{t: types.Typ[types.String], v: TStr("regexp: Compile(" + pat.S + "): " + err.Error())}})
				}
				return tuple{(*value)(nil), mkError(TStr(err.Error()))}
			}
			p := new(value)
			*p = &opaque{kind: "regexp", re: re, pat: pat}
			if must {
				return p
			}
			return tuple{p, iface{}}
		}
	}
	m := map[string]intrinsic{
		"regexp.MustCompile": compile(true),
		"regexp.Compile":     compile(false),
		"regexp.QuoteMeta": func(i *Interp, _ *frame, _ *ssa.Function, a []value) value {
			s := a[0].(*Term)
			if s.Const {
				return TStr(regexp.QuoteMeta(s.S))
			}
			fault("symbolic regexp.QuoteMeta")
			return nil
		},
		"(*regexp.Regexp).MatchString": func(i *Interp, _ *frame, _ *ssa.Function, a []value) value {
			o := regexpOf(a[0])
			s := a[1].(*Term)
			if o.re != nil && s.Const {
				return TBool(o.re.MatchString(s.S))
			}
			return i.symbolicRegexpMatch(o, s)
		},
		"(*regexp.Regexp).FindStringSubmatch": func(i *Interp, _ *frame, _ *ssa.Function, a []value) value {
			o := regexpOf(a[0])
			s := a[1].(*Term)
			if o.re != nil && s.Const {
				m := o.re.FindStringSubmatch(s.S)
				if m == nil {
					return []value(nil)
				}
				return strSlice(m)
			}
			return i.symbolicRegexpSubmatch(o, s)
		},
		"(*regexp.Regexp).ReplaceAllString": func(i *Interp, _ *frame, _ *ssa.Function, a []value) value {
			o := regexpOf(a[0])
			s, r := a[1].(*Term), a[2].(*Term)
			if o.re != nil && s.Const && r.Const {
				return TStr(o.re.ReplaceAllString(s.S, r.S))
			}
			fault("symbolic (*regexp.Regexp).ReplaceAllString (pattern %v)", o.pat)
			return nil
		},
		"(*regexp.Regexp).String": func(i *Interp, _ *frame, _ *ssa.Function, a []value) value {
			return regexpOf(a[0]).pat
		},
	}
	for k, v := range m {
		intrinsics[k] = v
	}
}

func (i *Interp) compileSymbolicRegexp(pat *Term, must bool) value {
	fault("regexp.Compile of a symbolic pattern: %s", termShort(pat))
	return nil
}

func (i *Interp) symbolicRegexpMatch(o *opaque, s *Term) value {
	fault("regexp match on symbolic input (pattern %s)", termShort(o.pat))
	return nil
}

func (i *Interp) symbolicRegexpSubmatch(o *opaque, s *Term) value {
	fault("regexp submatch on symbolic input (pattern %s)", termShort(o.pat))
	return nil
}
