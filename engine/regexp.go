package main

import (
	"go/types"
	"regexp"
	"strings"

	"golang.org/x/tools/go/ssa"
)

// opaque wraps a native Go object that interpreted code only handles by reference.
type opaque struct {
	kind   string
	re     *regexp.Regexp
	pat    *Term
	pieces []rePiece
}

func regexpOf(v value) *opaque {
	p, ok := v.(*value)
	if !ok || p == nil {
		panic(targetPanic{v: iface{t: types.Typ[types.String], v: TStr("runtime error: invalid memory address or nil pointer dereference (nil *regexp.Regexp)")}})
	}
	o, ok := (*p).(*opaque)
	if !ok {
		fault("regexp method on non-regexp value %T", *p)
	}
	return o
}

func init() {
	compile := func(must bool) intrinsic {
		return func(i *Interp, _ *frame, _ *ssa.Function, a []value) value {
			pat := a[0].(*Term)
			if !pat.Const {
				return i.compileSymbolicRegexp(pat, must)
			}
			re, err := regexp.Compile(pat.S)
			if err != nil {
				if must {
					panic(targetPanic{v: iface{t: types.Typ[types.String], v: TStr("regexp: Compile(" + pat.S + "): " + err.Error())}})
				}
				return tuple{(*value)(nil), mkError(TStr(err.Error()))}
			}
			p := new(value)
			*p = &opaque{kind: "regexp", re: re, pat: pat}
			if must {
				return p
			}
			return tuple{p, iface{}}
		}
	}
	m := map[string]intrinsic{
		"regexp.MustCompile": compile(true),
		"regexp.Compile":     compile(false),
		"regexp.QuoteMeta": func(i *Interp, _ *frame, _ *ssa.Function, a []value) value {
			s := a[0].(*Term)
			if s.Const {
				return TStr(regexp.QuoteMeta(s.S))
			}
			// pseudo-term: only regexp.Compile may consume it (never sent to the solver)
			return app(SStr, 0, "re.quote", s)
		},
		"(*regexp.Regexp).MatchString": func(i *Interp, _ *frame, _ *ssa.Function, a []value) value {
			o := regexpOf(a[0])
			s := a[1].(*Term)
			if o.re != nil && s.Const {
				return TBool(o.re.MatchString(s.S))
			}
			return i.symbolicRegexpMatch(o, s)
		},
		"(*regexp.Regexp).FindStringSubmatch": func(i *Interp, _ *frame, _ *ssa.Function, a []value) value {
			o := regexpOf(a[0])
			s := a[1].(*Term)
			if o.re != nil && s.Const {
				m := o.re.FindStringSubmatch(s.S)
				if m == nil {
					return []value(nil)
				}
				return strSlice(m)
			}
			return i.symbolicRegexpSubmatch(o, s)
		},
		"(*regexp.Regexp).ReplaceAllString": func(i *Interp, _ *frame, _ *ssa.Function, a []value) value {
			o := regexpOf(a[0])
			s, r := a[1].(*Term), a[2].(*Term)
			if o.re != nil && s.Const && r.Const {
				return TStr(o.re.ReplaceAllString(s.S, r.S))
			}
			fault("symbolic (*regexp.Regexp).ReplaceAllString (pattern %v)", o.pat)
			return nil
		},
		"(*regexp.Regexp).String": func(i *Interp, _ *frame, _ *ssa.Function, a []value) value {
			return regexpOf(a[0]).pat
		},
	}
	for k, v := range m {
		intrinsics[k] = v
	}
}

// ---- symbolic patterns: the wildcard shape ^lit(.*)lit...$ --------------------------------
//
// A pattern that is not a constant is decomposed into constant fragments (only
// ^ $ (.*) and literal characters, backslash escapes honoured), regexp.QuoteMeta(x)
// pieces (literal x) and raw symbolic pieces. A raw piece of the form
// ReplaceAll(T, "*", "(.*)") is split at its '*' (forking on their number) under
// the assumption that T holds no other regexp metacharacter; the complementary
// case is reported as a candidate (assertion label below) that only the native
// replay can confirm, since regexp semantics of arbitrary patterns are not encoded.

type rePiece struct {
	lit   *Term // literal text (nil for a group)
	group bool
	lazy  bool // (.*?) instead of (.*)
	dotall bool // under (?s): '.' also matches a newline
}

const reMetaChars = `\.+?()[]{}|^$`

func flattenConcat(t *Term, out *[]*Term) {
	if t.Op == "str.++" {
		for _, a := range t.Args {
			flattenConcat(a, out)
		}
		return
	}
	*out = append(*out, t)
}

func (i *Interp) compileSymbolicRegexp(pat *Term, must bool) value {
	var frags []*Term
	flattenConcat(pat, &frags)
	var pieces []rePiece
	addLit := func(t *Term) {
		if n := len(pieces); n > 0 && !pieces[n-1].group {
			pieces[n-1].lit = StrConcat(pieces[n-1].lit, t)
			return
		}
		pieces = append(pieces, rePiece{lit: t})
	}
	anchoredStart, anchoredEnd := false, false
	dotall, atStart := false, true
	for fi, f := range frags {
		switch {
		case f.Const:
			s := f.S
			for k := 0; k < len(s); k++ {
				switch {
				case strings.HasPrefix(s[k:], "(?s)") && atStart:
					dotall = true
					k += 3
					continue
				case s[k] == '^' && fi == 0 && atStart:
					anchoredStart = true
					atStart = false
					if strings.HasPrefix(s[k+1:], "(?s)") {
						dotall = true
						k += 4
					}
					continue
				case s[k] == '$' && fi == len(frags)-1 && k == len(s)-1:
					anchoredEnd = true
				case strings.HasPrefix(s[k:], "(.*?)"):
					pieces = append(pieces, rePiece{group: true, lazy: true, dotall: dotall})
					k += 4
				case strings.HasPrefix(s[k:], "(.*)"):
					pieces = append(pieces, rePiece{group: true, dotall: dotall})
					k += 3
				case s[k] == '\\' && k+1 < len(s):
					addLit(TStr(s[k+1 : k+2]))
					k++
				case strings.IndexByte(reMetaChars+"*", s[k]) >= 0:
					fault("unsupported constant regexp fragment %q", s)
				default:
					addLit(TStr(s[k : k+1]))
				}
				atStart = false
			}
		case f.Op == "re.quote":
			addLit(f.Args[0])
		case f.Op == "str.replace_all" && f.Args[1].Const && f.Args[1].S == "*" && f.Args[2].Const && (f.Args[2].S == "(.*)" || f.Args[2].S == "(.*?)"):
			T := f.Args[0]
			meta := TBool(false)
			for k := 0; k < len(reMetaChars); k++ {
				meta = Or(meta, StrContains(T, TStr(reMetaChars[k:k+1])))
			}
			if i.branch(meta) {
				// not encoded: regexp semantics of a name holding metacharacters
				_, model := i.solver.CheckAll(i.pc)
				i.violations = append(i.violations, Violation{Kind: "assert", Label: "task-name-characters-are-literal", Model: model})
				panic(pathEnd{"regexp-metacharacter-candidate"})
			}
			parts := i.splitSym(T, TStr("*"), -1)
			for k, p := range parts {
				if k > 0 {
					pieces = append(pieces, rePiece{group: true, lazy: f.Args[2].S == "(.*?)", dotall: dotall})
				}
				addLit(p.(*Term))
			}
		default:
			fault("regexp.Compile: unsupported symbolic pattern piece %s", termShort(f))
		}
	}
	if !anchoredStart || !anchoredEnd {
		fault("regexp.Compile: symbolic pattern must be anchored (^...$)")
	}
	p := new(value)
	*p = &opaque{kind: "wild", pat: pat, pieces: pieces}
	if must {
		return p
	}
	return tuple{p, iface{}}
}

// lastSplit splits s at the LAST occurrence of sub: fresh strings w1, w2 with the flat
// equation s = w1 ++ sub ++ w2 and no occurrence of sub starting after |w1| (for an empty
// sub the last occurrence is at the end). The equation is asserted only under contains(s, sub),
// which is returned.
func (i *Interp) lastSplit(s, sub *Term) (*Term, *Term, *Term) {
	w1, w2 := i.fresh("$lw1", SStr, 0), i.fresh("$lw2", SStr, 0)
	c := StrContains(s, sub)
	tail := StrConcat(sub, w2)
	later := StrContains(StrSubstr(tail, TInt(1), IntBin("-", StrLenInt(tail), TInt(1))), sub)
	empty := Eq(sub, TStr(""))
	def := And(Eq(s, StrConcat(StrConcat(w1, sub), w2)), Or(And(empty, Eq(w2, TStr(""))), And(Not(empty), Not(later))))
	i.pc = append(i.pc, Or(Not(c), def))
	return c, w1, w2
}

// lastIndexOf is strings.LastIndex over terms.
func (i *Interp) lastIndexOf(s, sub *Term) *Term {
	if s.Const && sub.Const {
		return TInt(int64(strings.LastIndex(s.S, sub.S)))
	}
	c, w1, _ := i.lastSplit(s, sub)
	return Ite(c, StrLenInt(w1), TInt(-1))
}

// matchWild returns the match condition and the group contents. Go's regexp prefers,
// leftmost group first, the longest text for (.*) and the shortest for (.*?).
func (i *Interp) matchWild(pieces []rePiece, name *Term) (*Term, []*Term) {
	var lits []*Term
	cur := TStr("")
	ng := 0
	firstLazy := false
	dotall := true
	for _, p := range pieces {
		if p.group {
			dotall = dotall && p.dotall
			if ng == 0 {
				firstLazy = p.lazy
			}
			lits = append(lits, cur)
			cur = TStr("")
			ng++
		} else {
			cur = StrConcat(cur, p.lit)
		}
	}
	lits = append(lits, cur)
	n := StrLenInt(name)
	switch ng {
	case 0:
		return Eq(name, lits[0]), nil
	case 1:
		l0, l1 := StrLenInt(lits[0]), StrLenInt(lits[1])
		ok := And(And(StrPrefixOf(lits[0], name), StrSuffixOf(lits[1], name)), IntCmp(">=", n, IntBin("+", l0, l1)))
		w := StrSubstr(name, l0, IntBin("-", IntBin("-", n, l0), l1))
		if !dotall { // without (?s) a '.' does not match a newline
			ok = And(ok, Not(StrContains(w, TStr("\n"))))
		}
		return ok, []*Term{w}
	case 2:
		l0, l1, l2 := StrLenInt(lits[0]), StrLenInt(lits[1]), StrLenInt(lits[2])
		mid := StrSubstr(name, l0, IntBin("-", IntBin("-", n, l0), l2))
		ok := And(And(And(StrPrefixOf(lits[0], name), StrSuffixOf(lits[2], name)), IntCmp(">=", n, IntBin("+", IntBin("+", l0, l1), l2))), StrContains(mid, lits[1]))
		if !dotall { // (the literals of a harness hold no newline: one in mid is in a group)
			ok = And(ok, Not(StrContains(mid, TStr("\n"))))
		}
		// the first group decides the split: shortest (first occurrence of the middle
		// literal) when lazy, longest (last occurrence) when greedy
		if !firstLazy {
			_, w1, w2 := i.lastSplit(mid, lits[1])
			return ok, []*Term{w1, w2}
		}
		idx := StrIndexOf(mid, lits[1], TInt(0))
		w1 := StrSubstr(mid, TInt(0), idx)
		w2 := StrSubstr(mid, IntBin("+", idx, l1), StrLenInt(mid))
		return ok, []*Term{w1, w2}
	}
	fault("wildcard pattern with %d groups (bound is 2)", ng)
	return nil, nil
}

func (i *Interp) symbolicRegexpMatch(o *opaque, s *Term) value {
	if o.kind != "wild" {
		fault("regexp match on symbolic input (pattern %s)", termShort(o.pat))
	}
	ok, _ := i.matchWild(o.pieces, s)
	return ok
}

func (i *Interp) symbolicRegexpSubmatch(o *opaque, s *Term) value {
	if o.kind != "wild" {
		// constant pattern, symbolic input: only the wildcard shape is supported
		var frags []*Term
		flattenConcat(o.pat, &frags)
		v := i.compileSymbolicRegexp(o.pat, true)
		o = (*v.(*value)).(*opaque)
	}
	ok, groups := i.matchWild(o.pieces, s)
	if !i.branch(ok) {
		return []value(nil)
	}
	out := []value{s}
	for _, g := range groups {
		out = append(out, g)
	}
	return out
}
