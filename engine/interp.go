package main

import (
	"fmt"
	"go/token"
	"go/types"
	"strings"

	"golang.org/x/tools/go/ssa"
)

type Interp struct {
	ld            *Loaded
	prog          *ssa.Program
	globals       map[*ssa.Global]*value
	solver        *Solver
	ex            *Explorer
	pc            []*Term
	nsym          int
	names         map[string]int
	params        map[string]int
	inited        map[*ssa.Package]bool
	hpkg          string // package path of the harness being run (scopes //gosmt:stub)
	initDepth     int
	ndecode       int
	crossChecked  int
	rs            *raceState
	mapOrderForks int
	quiet         int
	builders      map[*value]*builderState
	events        []value // zzsym.Emit trace (interpreter values of type zzsym.Event)
	notes         []string
	// statistics
	instrs     int64
	initInstrs int64
	funcs      map[string]int
	stubs      map[string]int
	unwind     int
	maxSteps   int64
	// per-path results
	violations []Violation
	reached    map[string]int
	symvals    map[string]*Term
	cs         *concState
}

type frame struct {
	i         *Interp
	caller    *frame
	fn        *ssa.Function
	block     *ssa.BasicBlock
	prevBlock *ssa.BasicBlock
	env       map[ssa.Value]value
	locals    []value
	defers    *deferred
	result    value
	panicking bool
	panic     interface{}
	backedges map[*ssa.BasicBlock]int
}

func (fr *frame) get(key ssa.Value) value {
	switch key := key.(type) {
	case nil:
		return nil
	case *ssa.Function:
		return key
	case *ssa.Builtin:
		return key
	case *ssa.Const:
		return constValue(key)
	case *ssa.Global:
		return fr.i.global(key)
	}
	if r, ok := fr.env[key]; ok {
		return r
	}
	fault("get: no value for %T %v in %s", key, key.Name(), fr.fn)
	return nil
}

func (i *Interp) global(g *ssa.Global) *value {
	if g.Pkg != nil && !i.inited[g.Pkg] && g.Name() != "init$guard" {
		i.initPkg(g.Pkg)
	}
	if r, ok := i.globals[g]; ok {
		return r
	}
	p := new(value)
	*p = zero(g.Type().(*types.Pointer).Elem())
	if g.Pkg != nil && g.Pkg.Pkg.Path() == "os" && g.Name() == "Args" {
		*p = []value{TStr("task")}
	}
	i.globals[g] = p
	return p
}

func constValue(c *ssa.Const) value {
	if c.Value == nil {
		return zero(c.Type())
	}
	t := c.Type().Underlying()
	if b, ok := t.(*types.Basic); ok {
		switch {
		case b.Info()&types.IsBoolean != 0:
			return TBool(c.Value.String() == "true")
		case b.Info()&types.IsString != 0:
			return TStr(constantString(c))
		case b.Info()&types.IsInteger != 0:
			w, _, _ := bvWidth(b)
			if w == 0 {
				w = 64
			}
			return TBV(w, uint64(c.Int64()))
		case b.Info()&types.IsFloat != 0:
			return c.Float64()
		}
	}
	if _, ok := t.(*types.TypeParam); ok {
		fault("const of type param")
	}
	fault("constValue: unsupported %v : %v", c, c.Type())
	return nil
}

// fresh creates a symbolic variable. Names given by harnesses are kept as
// they are (a repeated name gets "@k"), so that the native replay of the same
// harness can look its values up by name.
func (i *Interp) fresh(name string, s Sort, w int) *Term {
	i.nsym++
	i.names[name]++
	n := name
	if k := i.names[name]; k > 1 {
		n = fmt.Sprintf("%s@%d", name, k)
	}
	t := TVar(n, s, w)
	i.symvals[n] = t
	return t
}

// branch decides a symbolic condition, forking when both sides are feasible.
func (i *Interp) branch(c *Term) bool {
	if c.Const {
		return c.B
	}
	rt := i.solver.CheckFocus(i.pc, c)
	rf := i.solver.CheckFocus(i.pc, Not(c))
	tOK := rt != "unsat"
	fOK := rf != "unsat"
	switch {
	case tOK && fOK:
		if i.ex.choose(2, "branch") == 0 {
			i.pc = append(i.pc, c)
			return true
		}
		i.pc = append(i.pc, Not(c))
		return false
	case tOK:
		i.pc = append(i.pc, c)
		return true
	case fOK:
		i.pc = append(i.pc, Not(c))
		return false
	}
	panic(pathEnd{"infeasible"})
}

// concretizeInt forks over the feasible values of t in [lo,hi].
func (i *Interp) concretizeInt(t *Term, lo, hi int64) int64 {
	if t.Const {
		return t.signed()
	}
	for v := lo; v <= hi; v++ {
		if i.branch(Eq(t, TBV(t.W, uint64(v)))) {
			return v
		}
	}
	panic(pathEnd{"concretize: out of range"})
}

func (i *Interp) targetPanicIf(c *Term, msg string) {
	if i.branch(c) {
		panic(targetPanic{v: iface{t: types.Typ[types.String], v: TStr("runtime error: " + msg)}})
	}
}

func asInt(i *Interp, v value) int64 {
	t := v.(*Term)
	if t.Const {
		return t.signed()
	}
	return i.concretizeInt(t, -1, 16)
}

type continuation int

const (
	kNext continuation = iota
	kReturn
	kJump
)

func (i *Interp) visitInstr(fr *frame, instr ssa.Instruction) continuation {
	i.instrs++
	if i.maxSteps > 0 && i.instrs > i.maxSteps {
		panic(pathEnd{"step budget"})
	}
	switch instr := instr.(type) {
	case *ssa.DebugRef:
	case *ssa.UnOp:
		fr.env[instr] = i.unop(fr, instr, fr.get(instr.X))
	case *ssa.BinOp:
		fr.env[instr] = i.binop(instr.Op, instr.X.Type(), fr.get(instr.X), fr.get(instr.Y))
	case *ssa.Call:
		fn, args := i.prepareCall(fr, &instr.Call)
		fr.env[instr] = i.call(fr, instr.Pos(), fn, args)
	case *ssa.ChangeInterface:
		fr.env[instr] = fr.get(instr.X)
	case *ssa.ChangeType:
		fr.env[instr] = fr.get(instr.X)
	case *ssa.Convert:
		fr.env[instr] = i.conv(instr.Type(), instr.X.Type(), fr.get(instr.X))
	case *ssa.MakeInterface:
		fr.env[instr] = iface{t: instr.X.Type(), v: fr.get(instr.X)}
	case *ssa.Extract:
		fr.env[instr] = fr.get(instr.Tuple).(tuple)[instr.Index]
	case *ssa.Slice:
		fr.env[instr] = i.slice(fr.get(instr.X), fr.get(instr.Low), fr.get(instr.High), fr.get(instr.Max))
	case *ssa.Return:
		switch len(instr.Results) {
		case 0:
		case 1:
			fr.result = fr.get(instr.Results[0])
		default:
			var res []value
			for _, r := range instr.Results {
				res = append(res, fr.get(r))
			}
			fr.result = tuple(res)
		}
		fr.block = nil
		return kReturn
	case *ssa.RunDefers:
		fr.runDefers()
	case *ssa.Panic:
		panic(targetPanic{v: fr.get(instr.X)})
	case *ssa.Store:
		p := fr.get(instr.Addr).(*value)
		if p == nil {
			panic(targetPanic{v: iface{t: types.Typ[types.String], v: TStr("runtime error: nil pointer dereference (store)")}})
		}
		i.raceAccess(fr, p, true, "a memory cell", instr.Pos())
		*p = copyVal(fr.get(instr.Val))
	case *ssa.If:
		succ := 1
		if i.branch(fr.get(instr.Cond).(*Term)) {
			succ = 0
		}
		fr.jump(fr.block.Succs[succ])
		return kJump
	case *ssa.Jump:
		fr.jump(fr.block.Succs[0])
		return kJump
	case *ssa.Defer:
		fn, args := i.prepareCall(fr, &instr.Call)
		defers := &fr.defers
		if instr.DeferStack != nil {
			if into := fr.get(instr.DeferStack); into != nil {
				defers = into.(**deferred)
			}
		}
		*defers = &deferred{fn: fn, args: args, instr: instr, tail: *defers}
	case *ssa.Go:
		fn, args := i.prepareCall(fr, &instr.Call)
		i.spawn(fn, args)
	case *ssa.Send:
		i.send(fr.get(instr.Chan).(*chanV), fr.get(instr.X))
	case *ssa.MakeChan:
		ch := &chanV{cap: int(asInt(i, fr.get(instr.Size)))}
		if st, ok := instr.Type().Underlying().(*types.Chan).Elem().Underlying().(*types.Struct); ok && st.NumFields() == 0 {
			ch.zeroSize = true
		}
		fr.env[instr] = ch
	case *ssa.Alloc:
		var addr *value
		if instr.Heap {
			addr = new(value)
			fr.env[instr] = addr
		} else {
			addr = fr.env[instr].(*value)
		}
		*addr = zero(instr.Type().Underlying().(*types.Pointer).Elem())
	case *ssa.MakeSlice:
		n := asInt(i, fr.get(instr.Cap))
		s := make([]value, n)
		tElt := instr.Type().Underlying().(*types.Slice).Elem()
		for k := range s {
			s[k] = zero(tElt)
		}
		fr.env[instr] = s[:asInt(i, fr.get(instr.Len))]
	case *ssa.MakeMap:
		fr.env[instr] = &mapV{}
	case *ssa.Range:
		fr.env[instr] = i.rangeIter(fr, fr.get(instr.X), instr.X.Type())
	case *ssa.Next:
		fr.env[instr] = i.next(fr.get(instr.Iter))
	case *ssa.FieldAddr:
		p := fr.get(instr.X).(*value)
		if p == nil {
			panic(targetPanic{v: iface{t: types.Typ[types.String], v: TStr("runtime error: nil pointer dereference (field " + instr.String() + ")")}})
		}
		fr.env[instr] = &(*p).(structure)[instr.Field]
	case *ssa.Field:
		fr.env[instr] = fr.get(instr.X).(structure)[instr.Field]
	case *ssa.IndexAddr:
		x := fr.get(instr.X)
		switch x := x.(type) {
		case []value:
			idx := i.index(fr.get(instr.Index).(*Term), len(x))
			fr.env[instr] = &x[idx]
		case *value:
			if x == nil {
				panic(targetPanic{v: iface{t: types.Typ[types.String], v: TStr("runtime error: nil pointer dereference (index)")}})
			}
			a := (*x).(array)
			idx := i.index(fr.get(instr.Index).(*Term), len(a))
			fr.env[instr] = &a[idx]
		default:
			fault("IndexAddr on %T", x)
		}
	case *ssa.Index:
		x := fr.get(instr.X)
		switch x := x.(type) {
		case array:
			idx := i.index(fr.get(instr.Index).(*Term), len(x))
			fr.env[instr] = x[idx]
		case *Term: // string indexing
			fr.env[instr] = i.strIndex(x, fr.get(instr.Index).(*Term))
		default:
			fault("Index on %T", x)
		}
	case *ssa.Lookup:
		if m, ok := fr.get(instr.X).(*mapV); ok && m != nil {
			i.raceAccess(fr, m, false, "a map", instr.Pos())
		}
		fr.env[instr] = i.lookup(instr, fr.get(instr.X), fr.get(instr.Index))
	case *ssa.MapUpdate:
		m := fr.get(instr.Map).(*mapV)
		if m == nil {
			panic(targetPanic{v: iface{t: types.Typ[types.String], v: TStr("assignment to entry in nil map")}})
		}
		i.raceAccess(fr, m, true, "a map", instr.Pos())
		i.mapSet(m, fr.get(instr.Key), copyVal(fr.get(instr.Value)))
	case *ssa.TypeAssert:
		fr.env[instr] = i.typeAssert(instr, fr.get(instr.X).(iface))
	case *ssa.MakeClosure:
		var bindings []value
		for _, b := range instr.Bindings {
			bindings = append(bindings, fr.get(b))
		}
		fr.env[instr] = &closure{instr.Fn.(*ssa.Function), bindings}
	case *ssa.Phi:
		fault("phi reached")
	default:
		fault("unsupported instruction %T: %v", instr, instr)
	}
	return kNext
}

func (fr *frame) jump(to *ssa.BasicBlock) {
	if to.Dominates(fr.block) { // back-edge
		if fr.backedges == nil {
			fr.backedges = map[*ssa.BasicBlock]int{}
		}
		fr.backedges[to]++
		if fr.backedges[to] > fr.i.unwind {
			panic(pathEnd{"unwind:" + fr.fn.String()})
		}
	}
	fr.prevBlock, fr.block = fr.block, to
}

func (i *Interp) index(idx *Term, n int) int {
	if idx.Const {
		k := idx.signed()
		if k < 0 || k >= int64(n) {
			panic(targetPanic{v: iface{t: types.Typ[types.String], v: TStr(fmt.Sprintf("runtime error: index out of range [%d] with length %d", k, n))}})
		}
		return int(k)
	}
	oob := Or(BVCmp("bvslt", idx, TBV(idx.W, 0)), BVCmp("bvsge", idx, TBV(idx.W, uint64(n))))
	i.targetPanicIf(oob, "index out of range (symbolic)")
	return int(i.concretizeInt(idx, 0, int64(n-1)))
}

func (i *Interp) prepareCall(fr *frame, call *ssa.CallCommon) (fn value, args []value) {
	v := fr.get(call.Value)
	if call.Method == nil {
		fn = v
	} else {
		recv := v.(iface)
		if recv.t == nil {
			panic(targetPanic{v: iface{t: types.Typ[types.String], v: TStr("runtime error: invalid memory address or nil pointer dereference (nil interface method call " + call.Method.Name() + ")")}})
		}
		if c, ok := recv.v.(*ctxObj); ok {
			for _, a := range call.Args {
				args = append(args, fr.get(a))
			}
			return i.ctxMethod(c, call.Method.Name()), args
		}
		if recv.t == errType {
			st := errFields(recv)
			switch call.Method.Name() {
			case "Error":
				return &nativeFn{"Error", func(*Interp, *frame, []value) value { return st[0] }}, nil
			case "Unwrap":
				return &nativeFn{"Unwrap", func(*Interp, *frame, []value) value { return st[1] }}, nil
			}
		}
		f := i.prog.LookupMethod(recv.t, call.Method.Pkg(), call.Method.Name())
		if f == nil {
			fault("no method %s on %v", call.Method, recv.t)
		}
		fn = f
		args = append(args, recv.v)
	}
	for _, a := range call.Args {
		args = append(args, fr.get(a))
	}
	return
}

func (i *Interp) call(caller *frame, pos token.Pos, fn value, args []value) value {
	switch fn := fn.(type) {
	case *ssa.Function:
		if fn == nil {
			panic(targetPanic{v: iface{t: types.Typ[types.String], v: TStr("call of nil function")}})
		}
		return i.callSSA(caller, fn, args, nil)
	case *closure:
		return i.callSSA(caller, fn.Fn, args, fn.Env)
	case *ssa.Builtin:
		return i.callBuiltin(caller, fn, args)
	case *nativeFn:
		return fn.f(i, caller, args)
	}
	fault("cannot call %T", fn)
	return nil
}

func fnKey(fn *ssa.Function) string {
	if o := fn.Origin(); o != nil {
		return o.String()
	}
	return fn.String()
}

func (i *Interp) callSSA(caller *frame, fn *ssa.Function, args []value, env []value) value {
	key := fnKey(fn)
	if st, ok := i.ld.stubs[i.hpkg+"|"+key]; ok && st != fn && !callerIs(caller, st) {
		i.stubs["harness:"+key]++
		return i.callSSA(caller, st, args, nil)
	}
	if in, ok := intrinsics[key]; ok && !(tmplSrcSkip[key] && i.params["__tmplsrc"] == 1) {
		i.stubs[key]++
		return in(i, caller, fn, args)
	}
	if strings.HasPrefix(key, "(*github.com/go-task/task/v3/internal/logger.Logger).") && !strings.HasSuffix(key, ".Prompt") && !strings.HasSuffix(key, ".FOutf") {
		i.stubs[key]++
		return nil
	}
	if fn.Blocks == nil && fn.Pkg != nil {
		fn.Pkg.Build()
	}
	if fn.Blocks == nil {
		if o := fn.Origin(); o != nil && o.Pkg != nil {
			o.Pkg.Build()
		}
	}
	if fn.Blocks == nil {
		fault("no body and no intrinsic for %s", key)
	}
	if fn.Synthetic == "package initializer" {
		if caller != nil {
			return nil // dependencies are initialised lazily, on first use
		}
	} else if fn.Pkg != nil {
		i.initPkg(fn.Pkg)
	}
	i.funcs[key]++
	fr := &frame{i: i, caller: caller, fn: fn}
	fr.env = make(map[ssa.Value]value)
	fr.block = fn.Blocks[0]
	fr.locals = make([]value, len(fn.Locals))
	for k, l := range fn.Locals {
		fr.locals[k] = zero(l.Type().Underlying().(*types.Pointer).Elem())
		fr.env[l] = &fr.locals[k]
	}
	for k, p := range fn.Params {
		fr.env[p] = args[k]
	}
	for k, fv := range fn.FreeVars {
		fr.env[fv] = env[k]
	}
	for fr.block != nil {
		i.runFrame(fr)
	}
	return fr.result
}

// skipInit lists packages whose initialisers are not run: what they set up is
// stubbed or harnessed separately.
var skipInit = map[string]bool{
	modulePath + "/internal/flags": true, // pflag registration and parsing of os.Args
	// internal/templater: only its explicit init() (go-task's own function table: shellQuote,
	// q, splitLines, ...) is run, with the sprig table empty; see initPkg
	modulePath + "/taskfile": true, // chroma style registration
	"runtime":                true,
	"syscall":                true,
	"time":                   true,
	"reflect":                true,
	"net/http":               true,
}

// initPkg runs the package initialiser lazily, the first time a function or a
// global of the package is used on this path. Instructions of an initialiser
// that the engine cannot execute leave the zero value behind.
func (i *Interp) initPkg(p *ssa.Package) {
	if p == nil || i.inited[p] {
		return
	}
	i.inited[p] = true
	if skipInit[p.Pkg.Path()] {
		return
	}
	initFn := p.Func("init")
	if p.Pkg.Path() == modulePath+"/internal/templater" {
		initFn = p.Func("init#1")
	}
	if initFn == nil {
		return
	}
	p.Build()
	if initFn.Blocks == nil {
		return
	}
	i.initDepth++
	defer func() { i.initDepth-- }()
	savedInstrs := i.instrs
	func() {
		defer func() {
			if r := recover(); r != nil {
				switch r.(type) {
				case engineFault, targetPanic:
					// tolerated: partially initialised package
				default:
					panic(r)
				}
			}
		}()
		i.callSSA(nil, initFn, nil, nil)
	}()
	i.initInstrs += i.instrs - savedInstrs
}

func (i *Interp) runFrame(fr *frame) {
	defer func() {
		if fr.block == nil {
			return // normal return
		}
		r := recover()
		if r == nil {
			return
		}
		tp, ok := r.(targetPanic)
		if !ok {
			if ef, isFault := r.(engineFault); isFault && !strings.Contains(ef.msg, " @ ") {
				ef.msg += " @ " + fr.fn.String()
				n := 0
				for c := fr.caller; c != nil && n < 4; c = c.caller {
					ef.msg += " <- " + c.fn.String()
					n++
				}
				r = ef
			}
			panic(r) // engine-level unwinding (pathEnd, engineFault)
		}
		if tp.where == "" {
			tp.where = fr.fn.String()
			n := 0
			for c := fr.caller; c != nil && n < 6; c = c.caller {
				tp.where += " <- " + c.fn.String()
				n++
			}
			r = tp
		}
		fr.panicking = true
		fr.panic = r
		fr.runDefers()
		fr.block = fr.fn.Recover
	}()
	for {
		block := fr.block
		for _, instr := range block.Instrs {
			if phi, ok := instr.(*ssa.Phi); ok {
				_ = phi
				continue
			}
			break
		}
		// evaluate phis simultaneously
		var phiVals []value
		var phis []*ssa.Phi
		for _, instr := range block.Instrs {
			phi, ok := instr.(*ssa.Phi)
			if !ok {
				break
			}
			for k, pred := range block.Preds {
				if pred == fr.prevBlock {
					phiVals = append(phiVals, fr.get(phi.Edges[k]))
					break
				}
			}
			phis = append(phis, phi)
		}
		for k, phi := range phis {
			fr.env[phi] = phiVals[k]
		}
		jumped := false
		for _, instr := range block.Instrs[len(phis):] {
			var k continuation
			if i.initDepth > 0 && fr.fn.Synthetic == "package initializer" {
				k = i.visitInstrTolerant(fr, instr)
			} else {
				k = i.visitInstr(fr, instr)
			}
			switch k {
			case kReturn:
				return
			case kNext:
			case kJump:
				jumped = true
			}
			if jumped {
				break
			}
		}
		if !jumped {
			fault("fell off block end in %s", fr.fn)
		}
	}
}

func (fr *frame) runDefer(d *deferred) {
	var ok bool
	defer func() {
		if !ok {
			r := recover()
			if _, isT := r.(targetPanic); !isT {
				panic(r)
			}
			fr.panicking = true
			fr.panic = r
		}
	}()
	fr.i.call(fr, d.instr.Pos(), d.fn, d.args)
	ok = true
}

func (fr *frame) runDefers() {
	for d := fr.defers; d != nil; d = d.tail {
		fr.runDefer(d)
	}
	fr.defers = nil
	if fr.panicking {
		panic(fr.panic)
	}
}

// visitInstrTolerant executes one instruction of a package initialiser; if the
// engine cannot execute it the destination keeps the zero value of its type.
func (i *Interp) visitInstrTolerant(fr *frame, instr ssa.Instruction) (k continuation) {
	defer func() {
		if r := recover(); r != nil {
			switch r.(type) {
			case engineFault, targetPanic:
				if v, ok := instr.(ssa.Value); ok {
					func() {
						defer func() { recover() }()
						fr.env[v] = zero(v.Type())
					}()
				}
				k = kNext
			default:
				panic(r)
			}
		}
	}()
	return i.visitInstr(fr, instr)
}

// method returns the exported method name of t, or nil.
func (i *Interp) method(t types.Type, name string) *ssa.Function {
	sel := i.prog.MethodSets.MethodSet(t).Lookup(nil, name)
	if sel == nil {
		return nil
	}
	return i.prog.MethodValue(sel)
}
