package main

import (
	"fmt"
	"go/types"

	"golang.org/x/tools/go/ssa"
)

type value interface{}

type tuple []value
type array []value
type structure []value

type iface struct {
	t types.Type
	v value
}

type closure struct {
	Fn  *ssa.Function
	Env []value
}

// mapV is an insertion-ordered association list; keys may be symbolic.
type mapV struct {
	keys []value
	vals []value
}

type mapIter struct {
	m    *mapV
	i    int
	keys []value
	vals []value
}

type strIter struct {
	s string
	i int
}

type deferred struct {
	fn    value
	args  []value
	instr *ssa.Defer
	tail  *deferred
}

// targetPanic is a panic raised by the interpreted program.
type targetPanic struct {
	v     value
	where string
}

// pathEnd terminates exploration of the current path.
type pathEnd struct{ why string }

// engineFault means the engine cannot handle something.
type engineFault struct{ msg string }

func fault(format string, a ...any) { panic(engineFault{fmt.Sprintf(format, a...)}) }

func bvWidth(t types.Type) (int, bool, bool) { // width, signed, ok
	b, ok := t.Underlying().(*types.Basic)
	if !ok {
		return 0, false, false
	}
	switch b.Kind() {
	case types.Int, types.Int64, types.UntypedInt:
		return 64, true, true
	case types.Int32, types.UntypedRune:
		return 32, true, true
	case types.Int16:
		return 16, true, true
	case types.Int8:
		return 8, true, true
	case types.Uint, types.Uint64, types.Uintptr:
		return 64, false, true
	case types.Uint32:
		return 32, false, true
	case types.Uint16:
		return 16, false, true
	case types.Uint8:
		return 8, false, true
	}
	return 0, false, false
}

func zero(t types.Type) value {
	switch t := t.(type) {
	case *types.Basic:
		if t.Kind() == types.UntypedNil {
			fault("untyped nil has no zero value")
		}
		if t.Info()&types.IsBoolean != 0 {
			return TBool(false)
		}
		if t.Info()&types.IsString != 0 {
			return TStr("")
		}
		if w, _, ok := bvWidth(t); ok {
			return TBV(w, 0)
		}
		if t.Kind() == types.UnsafePointer {
			return (*value)(nil)
		}
		if t.Info()&types.IsFloat != 0 {
			return float64(0)
		}
		fault("zero: unsupported basic %v", t)
	case *types.Pointer:
		return (*value)(nil)
	case *types.Array:
		a := make(array, t.Len())
		for i := range a {
			a[i] = zero(t.Elem())
		}
		return a
	case *types.Named:
		return zero(t.Underlying())
	case *types.Alias:
		return zero(types.Unalias(t))
	case *types.Interface:
		return iface{}
	case *types.Slice:
		return []value(nil)
	case *types.Struct:
		s := make(structure, t.NumFields())
		for i := range s {
			s[i] = zero(t.Field(i).Type())
		}
		return s
	case *types.Tuple:
		if t.Len() == 1 {
			return zero(t.At(0).Type())
		}
		s := make(tuple, t.Len())
		for i := range s {
			s[i] = zero(t.At(i).Type())
		}
		return s
	case *types.Chan:
		return (*chanV)(nil)
	case *types.Map:
		return (*mapV)(nil)
	case *types.Signature:
		return (*ssa.Function)(nil)
	}
	fault("zero: unsupported type %T %v", t, t)
	return nil
}

type chanV struct {
	ctx      *ctxObj // set for a context's Done channel
	zeroSize bool    // element type has size zero (semaphore)
	cap      int
	buf      []value
	closed   bool
}

func copyVal(v value) value {
	switch v := v.(type) {
	case array:
		a := make(array, len(v))
		for i := range v {
			a[i] = copyVal(v[i])
		}
		return a
	case structure:
		a := make(structure, len(v))
		for i := range v {
			a[i] = copyVal(v[i])
		}
		return a
	case tuple:
		fault("copyVal of tuple")
	}
	return v
}

// equals returns a Bool term: structural equality as Go's ==.
func equals(x, y value) *Term {
	switch x := x.(type) {
	case *Term:
		return Eq(x, y.(*Term))
	case *value:
		return TBool(x == y.(*value))
	case *mapV:
		return TBool(x == y.(*mapV))
	case *chanV:
		return TBool(x == y.(*chanV))
	case iface:
		yi := y.(iface)
		if x.t == nil || yi.t == nil {
			return TBool(x.t == nil && yi.t == nil)
		}
		if !types.Identical(x.t, yi.t) {
			return TBool(false)
		}
		return equals(x.v, yi.v)
	case structure:
		ys := y.(structure)
		r := TBool(true)
		for i := range x {
			r = And(r, equals(x[i], ys[i]))
		}
		return r
	case array:
		ys := y.(array)
		r := TBool(true)
		for i := range x {
			r = And(r, equals(x[i], ys[i]))
		}
		return r
	case *ssa.Function:
		yf, ok := y.(*ssa.Function)
		return TBool(ok && x == yf)
	case *closure:
		yc, ok := y.(*closure)
		return TBool(ok && x == yc)
	case []value:
		// only comparison to nil is legal
		return TBool(x == nil && y.([]value) == nil)
	case float64:
		return TBool(x == y.(float64))
	}
	fault("equals: unsupported %T", x)
	return nil
}

// symBytes is a []byte obtained from a symbolic string; it only converts back.
type symBytes struct{ t *Term }
