package main

import "strings"

// allSpecs is the registry of harnesses per property. Bounds registered here are
// the ones that run clean (no unwinding failure, no budget hit) on the unchanged tree.
var allSpecs = []HarnessSpec{
	{Prop: "C01", Func: "ZZ_C01_Deps", Tag: "shape=0", POR: true, Replay: "native", Twin: true, Params: map[string]int{"shape": 0, "maxconc": 1, "__coarse": 1}, TParams: map[string]int{"maxconc": 2}},
	{Prop: "C01", Func: "ZZ_C01_Deps", Tag: "shape=1", POR: true, Replay: "native", Params: map[string]int{"shape": 1, "maxconc": 0, "failing": 2, "__coarse": 1}, TParams: map[string]int{"maxconc": 1, "failing": 99}},
	{Prop: "C01", Func: "ZZ_C01_Deps", Tag: "shape=2", POR: true, Replay: "native", Params: map[string]int{"shape": 2, "maxconc": 0, "failing": 1, "__coarse": 1}, TParams: map[string]int{"maxconc": 1, "failing": 2}},
	{Prop: "C01", Func: "ZZ_C01_Deps", Tag: "shape=3", POR: true, Replay: "native", Params: map[string]int{"shape": 3, "maxconc": 0, "failing": 1, "__coarse": 1}, TParams: map[string]int{"maxconc": 1, "failing": 2}},
	{Prop: "C01", Func: "ZZ_C01_Deps", Tag: "shape=4", POR: true, Replay: "native", Params: map[string]int{"shape": 4, "maxconc": 0, "failing": 1, "__coarse": 1}, TParams: map[string]int{"failing": 2}},
	{Prop: "C01", Func: "ZZ_C01_Deps", Tag: "shape=7", POR: true, Replay: "native", Params: map[string]int{"shape": 7, "maxconc": 0, "failing": 1, "__coarse": 1}},
	{Prop: "C01", Func: "ZZ_C01_Deps", Tag: "shape=6", POR: true, Replay: "native", Params: map[string]int{"shape": 6, "maxconc": 0, "failing": 2, "__coarse": 1}},
	{Prop: "C01", Func: "ZZ_K_TwoCallers", Tag: "fine-grained", Tiers: "thorough", POR: true, Replay: "native", Twin: true},
	{Prop: "C06", Func: "ZZ_K_TwoCallers", Tag: "fine-grained", Tiers: "thorough", POR: true, Replay: "native"},
	{Prop: "C07", Func: "ZZ_K_TwoCallers", Tag: "fine-grained", Tiers: "thorough", POR: true, Replay: "native"},
	{Prop: "C01", Func: "ZZ_C01_Deps", Tag: "shape=0,fine-grained", Tiers: "thorough", POR: true, Replay: "native", Params: map[string]int{"shape": 0, "maxconc": 1, "failing": 1}},
	{Prop: "C02", Func: "ZZ_C02_Order", POR: true, Replay: "native", Twin: true, Params: map[string]int{"maxconc": 0, "__coarse": 1}, TParams: map[string]int{"maxconc": 1}},
	{Prop: "C02", Func: "ZZ_C02_SharedCall", POR: true, Replay: "native", Params: map[string]int{"__coarse": 1}},
	{Prop: "C02", Func: "ZZ_C02_PassedData", Replay: "native", Twin: true, Params: map[string]int{"__tmplsym": 1}},
	{Prop: "C02", Func: "ZZ_C02_Compile", Replay: "native", Twin: true, Params: map[string]int{"__tmplsrc": 1}},
	{Prop: "C03", Func: "ZZ_C03_FailStop", Tag: "shape=0", POR: true, Replay: "native", Twin: true, Params: map[string]int{"shape": 0, "__coarse": 1}},
	{Prop: "C03", Func: "ZZ_C03_FailStop", Tag: "shape=1", POR: true, Replay: "native", Params: map[string]int{"shape": 1, "__coarse": 1}},
	{Prop: "C03", Func: "ZZ_C03_FailStop", Tag: "shape=2", POR: true, Replay: "native", Params: map[string]int{"shape": 2, "__coarse": 1}},
	{Prop: "C03", Func: "ZZ_C03_FailStop", Tag: "shape=3", POR: true, Replay: "native", Params: map[string]int{"shape": 3, "failing": 1, "__coarse": 1}, TParams: map[string]int{"failing": 99}},
	{Prop: "C03", Pkg: "cmd/task", Func: "ZZ_CLI_ExitStatus", Tag: "group=0", Replay: "native", ReplayPkg: "args", ReplayFunc: "ZZ_CLI_ExitStatus_native", Twin: true, Params: map[string]int{"group": 0}},
	{Prop: "C13", Pkg: "cmd/task", Func: "ZZ_CLI_ExitStatus", Tag: "group=1", Replay: "native", ReplayPkg: "args", ReplayFunc: "ZZ_CLI_ExitStatus_native", Twin: true, Params: map[string]int{"group": 1}},
	{Prop: "C04", Func: "ZZ_H_History", Tag: "prop=4", POR: true, Replay: "native", Twin: true, Params: map[string]int{"prop": 4, "steps": 2, "__coarse": 1}, TParams: map[string]int{"steps": 3, "slim": 1}},
	{Prop: "C04", Func: "ZZ_H_History", Tag: "prop=4,cancelled-by-sibling", POR: true, Replay: "native", Params: map[string]int{"prop": 4, "steps": 2, "sibling_history": 1, "__coarse": 1}},
	{Prop: "C04", Func: "ZZ_H_History", Tag: "prop=4,killed-part-way", POR: true, Replay: "native", Params: map[string]int{"prop": 4, "steps": 3, "kill_history": 1, "__coarse": 1}, TParams: map[string]int{"two_cmds": 1}},
	{Prop: "C05", Func: "ZZ_H_Instances", POR: true, Replay: "native", Twin: true, Params: map[string]int{"steps": 3, "__coarse": 1}},
	{Prop: "C04", Func: "ZZ_H_Instances", POR: true, Replay: "native", Params: map[string]int{"steps": 3, "__coarse": 1}},
	{Prop: "C05", Func: "ZZ_H_History", Tag: "prop=5", POR: true, Replay: "native", Twin: true, Params: map[string]int{"prop": 5, "steps": 2, "__coarse": 1}, TParams: map[string]int{"steps": 3, "slim": 1}},
	{Prop: "C04", Func: "ZZ_H_History", Tag: "prop=4,two-generates", POR: true, Replay: "native", Params: map[string]int{"prop": 4, "steps": 2, "slim": 1, "gen_history": 1, "__coarse": 1}},
	{Prop: "C05", Func: "ZZ_H_History", Tag: "prop=5,two-generates", POR: true, Replay: "native", Params: map[string]int{"prop": 5, "steps": 2, "slim": 1, "gen_history": 1, "__coarse": 1}},
	{Prop: "C04", Func: "ZZ_H_History", Tag: "prop=4,query-between-runs", POR: true, Replay: "native", Params: map[string]int{"prop": 4, "steps": 3, "slim": 1, "query_history": 1, "__coarse": 1}},
	{Prop: "C05", Func: "ZZ_H_History", Tag: "prop=5,query-between-runs", POR: true, Replay: "native", Params: map[string]int{"prop": 5, "steps": 3, "slim": 1, "query_history": 1, "__coarse": 1}},
	{Prop: "C04", Func: "ZZ_H_History", Tag: "prop=4,generated-by-first-command", POR: true, Replay: "native", Params: map[string]int{"prop": 4, "steps": 2, "slim": 1, "early_gen_history": 1, "__coarse": 1}},
	{Prop: "C05", Func: "ZZ_H_History", Tag: "prop=5,link-to-nowhere-among-sources", POR: true, Replay: "native", Params: map[string]int{"prop": 5, "steps": 2, "slim": 1, "dangling_history": 1, "__coarse": 1}},
	{Prop: "C05", Func: "ZZ_C05_ChecksumFraming", Replay: "native", Twin: true},
	{Prop: "C05", Func: "ZZ_H_History", Tag: "prop=5,source-removed", POR: true, Replay: "native", Params: map[string]int{"prop": 5, "steps": 2, "slim": 1, "removal_history": 1, "__coarse": 1}},
	{Prop: "C05", Func: "ZZ_H_History", Tag: "prop=5,with-status", POR: true, Replay: "native", Params: map[string]int{"prop": 5, "steps": 2, "slim": 1, "status_history": 1, "__coarse": 1}},
	{Prop: "C12", Pkg: "cmd/task", Func: "ZZ_C12_QueryFlagsMeanDry", Replay: "native", ReplayPkg: "args", ReplayFunc: "ZZ_C12_QueryFlags_native", Twin: true},
	{Prop: "C05", Pkg: "cmd/task", Func: "ZZ_C05_StateDirFollowsTaskfile", Replay: "native", ReplayPkg: "args", ReplayFunc: "ZZ_C05_StateDir_native", Twin: true},
	{Prop: "C05", Pkg: "cmd/task", Func: "ZZ_C12_QueryFlagsMeanDry", Replay: "native", ReplayPkg: "args", ReplayFunc: "ZZ_C12_QueryFlags_native"},
	{Prop: "C12", Func: "ZZ_H_History", Tag: "prop=12", POR: true, Replay: "native", Twin: true, Params: map[string]int{"prop": 12, "steps": 2, "__coarse": 1}, TParams: map[string]int{"steps": 3, "slim": 1}},
	{Prop: "C03", Func: "ZZ_C03_FailStop", Tag: "shape=7", POR: true, Replay: "native", Params: map[string]int{"shape": 7, "__coarse": 1}},
	{Prop: "C03", Func: "ZZ_C03_FailStop", Tag: "shape=6", POR: true, Replay: "native", Params: map[string]int{"shape": 6, "failing": 2, "__coarse": 1}},
	{Prop: "C03", Func: "ZZ_C03_FailStop", Tag: "shape=5", POR: true, Replay: "native", Params: map[string]int{"shape": 5, "__coarse": 1}},
	{Prop: "C03", Func: "ZZ_C03_FailStop", Tag: "shape=4", POR: true, Replay: "native", Params: map[string]int{"shape": 4, "failing": 1, "__coarse": 1}},
	{Prop: "C06", Func: "ZZ_C03_FailStop", Tag: "shape=4", POR: true, Replay: "native", Params: map[string]int{"shape": 4, "failing": 1, "__coarse": 1}},
	{Prop: "C06", Func: "ZZ_C01_Deps", Tag: "shape=6", POR: true, Replay: "native", Params: map[string]int{"shape": 6, "maxconc": 0, "failing": 2, "__coarse": 1}},
	{Prop: "C06", Func: "ZZ_C06_DistinctOnce", POR: true, Replay: "native", Twin: true, Params: map[string]int{"__coarse": 1}},
	{Prop: "C02", Func: "ZZ_C11_Deferred", Replay: "native", Params: map[string]int{"__tmplsrc": 1}},
	{Prop: "C14", Func: "ZZ_C11_Deferred", Replay: "native", Params: map[string]int{"__tmplsrc": 1}},
	{Prop: "C14", Func: "ZZ_C14_DeferredCall", Replay: "native", Twin: true, Params: map[string]int{"__tmplsrc": 1}},
	{Prop: "C02", Func: "ZZ_C14_DeferredCall", Replay: "native", Params: map[string]int{"__tmplsrc": 1}},
	{Prop: "C06", Func: "ZZ_C06_RunModes", POR: true, Replay: "native", Twin: true, Params: map[string]int{"failing": 1, "__coarse": 1}, TParams: map[string]int{"failing": 2}},
	{Prop: "C07", Func: "ZZ_C07_Concurrency", Tag: "shape=1", POR: true, Replay: "native", Twin: true, MustReach: []string{"independent-deps-overlap"}, Params: map[string]int{"shape": 1, "maxconc": 2, "__coarse": 1}},
	{Prop: "C07", Func: "ZZ_C07_Concurrency", Tag: "shape=2", POR: true, Replay: "native", Params: map[string]int{"shape": 2, "maxconc": 2, "__coarse": 1}},
	{Prop: "C07", Func: "ZZ_C07_Concurrency", Tag: "shape=2,failing", POR: true, Replay: "native", Params: map[string]int{"shape": 2, "maxconc": 1, "failing": 1, "__coarse": 1}},
	{Prop: "C07", Func: "ZZ_C07_CallLimit", Replay: "native", Twin: true},
	{Prop: "C07", Func: "ZZ_C07_CallLimit", Tag: "acyclic-reading", Replay: "native", Params: map[string]int{"acyclic_reading": 1}},
	{Prop: "C07", Func: "ZZ_C07_FailingDynamicVar", POR: true, Replay: "native", Twin: true, Params: map[string]int{"__coarse": 1}},
	{Prop: "C07", Func: "ZZ_C07_Cycle", POR: true, Replay: "native", Twin: true, Params: map[string]int{"__coarse": 1}},
	{Prop: "C07", Func: "ZZ_C07_MutualOnce", POR: true, Replay: "native", Params: map[string]int{"__coarse": 1}},
	{Prop: "C11", Func: "ZZ_C11_DynamicVar", Replay: "native", Twin: true, Params: map[string]int{"__tmplsrc": 1}},
	{Prop: "C11", Func: "ZZ_C11_Deferred", Replay: "native", Twin: true, Params: map[string]int{"__tmplsrc": 1}},
	{Prop: "C11", Func: "ZZ_C11_FailingDynamicVar", Replay: "native", Twin: true, Params: map[string]int{"__tmplsrc": 1}},
	{Prop: "C11", Func: "ZZ_C11_Isolation", Replay: "native", Twin: true, Params: map[string]int{"__tmplsrc": 1}},
	{Prop: "C13", Func: "ZZ_C13_Guards", POR: true, Replay: "native", Twin: true, Params: map[string]int{"__coarse": 1}},
	{Prop: "C13", Func: "ZZ_C13_SharedGuard", POR: true, Replay: "native", Twin: true, Params: map[string]int{"__coarse": 1}},
	{Prop: "C14", Func: "ZZ_C14_Defer", POR: true, Replay: "native", Twin: true, Params: map[string]int{"__coarse": 1}},
	{Prop: "C08", Pkg: "taskfile/ast", Func: "ZZ_C08_DeepCopy", Replay: "native"},
	{Prop: "C08", Pkg: "taskfile/ast", Func: "ZZ_C08_Merge", Replay: "native"},
	{Prop: "C08", Func: "ZZ_C08_RootReference", Replay: "native", Twin: true},
	{Prop: "C06", Pkg: "taskfile/ast", Func: "ZZ_C06_MergeKeepsFileSettings", Replay: "native", Twin: true},
	{Prop: "C08", Pkg: "taskfile/ast", Func: "ZZ_C08_IncludedTwice", Replay: "native", Twin: true},
	{Prop: "C09", Pkg: "taskfile/ast", Func: "ZZ_C09_Merge", Tag: "siblings", POR: true, Replay: "native", Twin: true, Params: map[string]int{"diamond": 0, "__maporder": 1, "__coarse": 1}},
	{Prop: "C09", Pkg: "taskfile/ast", Func: "ZZ_C09_Merge", Tag: "diamond", POR: true, Replay: "native", Params: map[string]int{"diamond": 1, "__maporder": 1, "__maporder_scope": 1, "__coarse": 1}},
	{Prop: "C09", Pkg: "taskfile/ast", Func: "ZZ_C09_Merge", Tag: "deep-diamond", POR: true, Replay: "native", Params: map[string]int{"diamond": 1, "deep": 1, "__maporder": 1, "__maporder_scope": 1, "__coarse": 1}},
	{Prop: "C09", Func: "ZZ_C09_WhenChangedKey", Replay: "native", Twin: true, Params: map[string]int{"__maporder": 1, "__maporder_scope": 1}},
	{Prop: "C06", Func: "ZZ_C06_EffectiveRunMode", Replay: "native", Twin: true},
	{Prop: "C06", Func: "ZZ_C06_DynamicBinding", Replay: "native", Twin: true, Params: map[string]int{"__tmplsrc": 1}},
	{Prop: "C11", Func: "ZZ_C06_DynamicBinding", Replay: "native", Params: map[string]int{"__tmplsrc": 1}},
	{Prop: "C06", Func: "ZZ_C09_WhenChangedKey", Replay: "native", Params: map[string]int{"__maporder": 1, "__maporder_scope": 1}},
	{Prop: "C09", Func: "ZZ_C09_Dotenv", Replay: "native", Twin: true, Params: map[string]int{"__maporder": 1, "__maporder_scope": 1}},
	{Prop: "C08", Pkg: "taskfile", Func: "ZZ_C08_Reader", POR: true, Replay: "native", Twin: true, Params: map[string]int{"__coarse": 1}},
	{Prop: "C10", Pkg: "taskfile", Func: "ZZ_C10_IncludeStatement", POR: true, Replay: "native", Twin: true, Params: map[string]int{"__coarse": 1}},
	{Prop: "C09", Pkg: "taskfile", Func: "ZZ_C09_NodeResolve", Replay: "native", Twin: true},
	{Prop: "C20", Pkg: "taskfile", Func: "ZZ_C20_HTTPNodeOffline", Replay: "native", Twin: true},
	{Prop: "C20", Pkg: "taskfile", Func: "ZZ_C20_ErrorClassThroughIncludes", POR: true, Replay: "native", Twin: true, Params: map[string]int{"__coarse": 1}},
	{Prop: "C08", Pkg: "taskfile", Func: "ZZ_C09_NodeResolve", Replay: "native"},
	{Prop: "C20", Pkg: "taskfile", Func: "ZZ_C20_NodeOnlineOffline", Replay: "native", Twin: true},
	{Prop: "C09", Pkg: "taskfile", Func: "ZZ_C09_Reader", POR: true, Replay: "native", Twin: true, Params: map[string]int{"__coarse": 1}},
	{Prop: "C10", Pkg: "taskfile/ast", Func: "ZZ_C08_IncludedTwice", Tag: "vars-only", Replay: "native", Params: map[string]int{"vars_only": 1}},
	{Prop: "C10", Pkg: "", Func: "ZZ_C10_Vars", Replay: "native", Twin: true, Params: map[string]int{"__tmplsrc": 1}},
	{Prop: "C10", Pkg: "", Func: "ZZ_C10_Env", Replay: "native", Twin: true, Params: map[string]int{"__tmplsrc": 1}},
	{Prop: "C15", Pkg: "", Func: "ZZ_C15_Resolve", Replay: "native", Twin: true, Params: map[string]int{"tasks": 2, "namelen": 3, "reqlen": 3}, TParams: map[string]int{"tasks": 2, "namelen": 3, "reqlen": 4}},
	{Prop: "C15", Pkg: "", Func: "ZZ_C15_MatchVerbatim", Replay: "native", Twin: true, Params: map[string]int{"__tmplsym": 1}},
	{Prop: "C15", Pkg: "", Func: "ZZ_C15_TableOrder", Replay: "native", Twin: true},
	{Prop: "C15", Pkg: "", Func: "ZZ_C15_Fuzzy", Replay: "native", Twin: true},
	{Prop: "C16", Pkg: "taskfile/ast", Func: "ZZ_C16_Unmarshal", Replay: "native", Twin: true, Params: map[string]int{"depth": 0, "maxitems": 1}, TParams: map[string]int{"depth": 0, "maxitems": 2, "__maxpaths": 3000000}},
	{Prop: "C16", Pkg: "taskfile/ast", Func: "ZZ_C16_Merge", Replay: "native", Twin: true},
	{Prop: "C16", Func: "ZZ_C16_Compile", Replay: "native", Twin: true},
	{Prop: "C16", Pkg: "internal/deepcopy", Func: "ZZ_C16_Traverse", Replay: "native", Twin: true},
	{Prop: "C16", Pkg: "internal/execext", Func: "ZZ_C16_Expand", Replay: "native", Twin: true},
	{Prop: "C16", Pkg: "taskfile", Func: "ZZ_C16_GitNode", Replay: "native", Twin: true},
	{Prop: "C16", Pkg: "taskfile", Func: "ZZ_C16_Snippet", Replay: "native", Twin: true},
	{Prop: "C17", Func: "ZZ_C17_RunCommand", Replay: "native", Twin: true},
	{Prop: "C17", Pkg: "internal/output", Func: "ZZ_C17_Group", POR: true, Replay: "native", Twin: true, Params: map[string]int{"maxchunks": 1, "__coarse": 1}, TParams: map[string]int{"maxchunks": 2, "maxchunks_others": 1}},
	{Prop: "C17", Pkg: "internal/output", Func: "ZZ_C17_Prefixed", POR: true, Replay: "native", Twin: true, Params: map[string]int{"maxchunks": 1, "__coarse": 1}, TParams: map[string]int{"maxchunks": 2, "maxchunks_others": 1}},
	{Prop: "C20", Pkg: "taskfile", Func: "ZZ_C20_Cache", Replay: "native", Twin: true, Params: map[string]int{"steps": 2}, TParams: map[string]int{"steps": 3, "slim": 1}},
	{Prop: "C20", Pkg: "taskfile", Func: "ZZ_C20_Cache", Tag: "three-invocations", Replay: "native", Params: map[string]int{"steps": 3, "slim": 1}},
	{Prop: "C20", Pkg: "taskfile", Func: "ZZ_C20_RedirectPolicy", Replay: "native", Twin: true},
	{Prop: "C20", Pkg: "taskfile", Func: "ZZ_C20_Insecure", Replay: "native", Twin: true},
	{Prop: "C18", Func: "ZZ_C18_Kernel", Tag: "shape=2", POR: true, Replay: "native-race", Twin: true, Params: map[string]int{"shape": 2, "failing": 1, "__coarse": 1, "__race": 1}, TParams: map[string]int{"failing": 2}},
	{Prop: "C18", Func: "ZZ_C18_Kernel", Tag: "shape=1", POR: true, Replay: "native-race", Params: map[string]int{"shape": 1, "failing": 1, "__coarse": 1, "__race": 1}},
	{Prop: "C18", Func: "ZZ_C18_Deferred", POR: true, Replay: "native-race", Params: map[string]int{"__coarse": 1, "__race": 1}},
	{Prop: "C18", Func: "ZZ_C18_DynamicVars", POR: true, Replay: "native-race", Twin: true, Params: map[string]int{"__coarse": 1, "__race": 1}},
	{Prop: "C18", Func: "ZZ_C18_ShellOptions", POR: true, Replay: "native-race", Twin: true, Params: map[string]int{"__coarse": 1, "__race": 1}},
	{Prop: "C18", Func: "ZZ_C18_Names", POR: true, Replay: "native-race", Twin: true, Params: map[string]int{"__coarse": 1, "__race": 1}},
	{Prop: "C18", Func: "ZZ_C18_EmptyVarsCall", POR: true, Replay: "native-race", Twin: true, Params: map[string]int{"__coarse": 1, "__race": 1}},
	{Prop: "C18", Func: "ZZ_C18_Compile", POR: true, Replay: "native-race", Twin: true, Params: map[string]int{"__coarse": 1, "__race": 1}},
	{Prop: "C18", Pkg: "internal/output", Func: "ZZ_C18_PipelineWriters", POR: true, Replay: "native-race", Twin: true, Params: map[string]int{"__coarse": 1, "__race": 1}},
	{Prop: "C18", Pkg: "internal/output", Func: "ZZ_C17_Prefixed", Tag: "race", POR: true, Replay: "native-race", Params: map[string]int{"maxchunks": 1, "__coarse": 1, "__race": 1}},
	{Prop: "C18", Pkg: "internal/output", Func: "ZZ_C17_Group", Tag: "race", POR: true, Replay: "native-race", Params: map[string]int{"maxchunks": 1, "__coarse": 1, "__race": 1}},
	{Prop: "C19", Pkg: "args", Func: "ZZ_C19_Get", Replay: "native", Twin: true, TParams: map[string]int{"arglen": 6}},
	{Prop: "C19", Pkg: "args", Func: "ZZ_C19_Parse", Replay: "native", Twin: true},
	{Prop: "C19", Pkg: "args", Func: "ZZ_C19_Dialect", Replay: "native", Twin: true},
	{Prop: "C19", Pkg: "args", Func: "ZZ_C19_Forward", Replay: "native", Twin: true, Params: map[string]int{"__tmplsym": 1}, TParams: map[string]int{"arglen": 6}},
	{Prop: "C19", Pkg: "args", Func: "ZZ_C19_Forward", Tag: "templater-from-source", Replay: "native", Params: map[string]int{"__tmplsrc": 1, "novalue_alphabet": 1, "arglen": 10}},
	{Prop: "C19", Pkg: "cmd/task", Func: "ZZ_C19_CLI", Replay: "native", ReplayPkg: "args", ReplayFunc: "ZZ_C19_CLI_native", Twin: true, Params: map[string]int{"__tmplsym": 1}, TParams: map[string]int{"arglen": 6}},
	{Prop: "C19", Pkg: "cmd/task", Func: "ZZ_C19_Init", Replay: "native", ReplayPkg: "args", ReplayFunc: "ZZ_C19_Init_native", Twin: true},
}

func specsFor(prop, tier, filter string) []HarnessSpec {
	var out []HarnessSpec
	for _, s := range allSpecs {
		if s.Prop != prop {
			continue
		}
		if s.Tiers != "" && s.Tiers != tier {
			continue
		}
		if filter != "" && !strings.Contains(s.name(), filter) {
			continue
		}
		out = append(out, s)
	}
	return out
}

var modelCheckingProps = map[string]bool{"C01": true, "C02": true, "C03": true, "C06": true, "C07": true, "C13": true, "C14": true, "C17": true, "C18": true, "C09": true}

func propLevel(prop string) string {
	if modelCheckingProps[prop] {
		return "model_checking"
	}
	return "other"
}

var assumptions = map[string][]string{}

var commonAssumptions = []string{
	"bounded: every loop carries an unwinding assertion; nothing is claimed outside the bounds listed in coverage.bounds",
	"symbolic strings range over the stated ASCII alphabets and maximum lengths only; multi-byte UTF-8 is outside the claim",
	"stubs listed in coverage.stubs replace code that is not encoded (each is part of the claim)",
	"z3 answers are trusted; any (error or unknown answer makes the run inconclusive (exit 2), never a pass",
}

func propAssumptions(prop string) []string {
	return append(append([]string{}, assumptions[prop]...), commonAssumptions...)
}
