package main

import (
	"fmt"
	"go/constant"
	"go/token"
	"go/types"
	"strings"

	"golang.org/x/tools/go/ssa"
)

func constantString(c *ssa.Const) string { return constant.StringVal(c.Value) }

func nilDeref(what string) {
	panic(targetPanic{v: iface{t: types.Typ[types.String], v: TStr("runtime error: invalid memory address or nil pointer dereference (" + what + ")")}})
}

func (i *Interp) unop(fr *frame, instr *ssa.UnOp, x value) value {
	switch instr.Op {
	case token.MUL: // load
		p := x.(*value)
		if p == nil {
			nilDeref("load " + instr.X.Name() + " in " + fr.fn.String())
		}
		i.raceAccess(fr, p, false, "a memory cell", instr.Pos())
		return copyVal(*p)
	case token.NOT:
		return Not(x.(*Term))
	case token.SUB:
		t := x.(*Term)
		return BVBin("bvsub", TBV(t.W, 0), t)
	case token.XOR:
		t := x.(*Term)
		return BVBin("bvxor", t, TBV(t.W, ^uint64(0)))
	case token.ARROW:
		ch := x.(*chanV)
		v := i.recv(ch)
		elem := instr.X.Type().Underlying().(*types.Chan).Elem()
		ok := v != nil
		if v == nil {
			v = zero(elem)
		}
		if instr.CommaOk {
			return tuple{v, TBool(ok)}
		}
		return v
	}
	fault("unop %v", instr.Op)
	return nil
}

func (i *Interp) binop(op token.Token, t types.Type, x, y value) value {
	switch op {
	case token.EQL:
		return i.eqv(x, y)
	case token.NEQ:
		return Not(i.eqv(x, y))
	}
	xt, ok := x.(*Term)
	if !ok {
		fault("binop %v on %T", op, x)
	}
	yt := y.(*Term)
	if xt.Sort == SStr {
		switch op {
		case token.ADD:
			return StrConcat(xt, yt)
		case token.LSS:
			return StrLt(xt, yt)
		case token.GTR:
			return StrLt(yt, xt)
		case token.LEQ:
			return Not(StrLt(yt, xt))
		case token.GEQ:
			return Not(StrLt(xt, yt))
		}
		fault("string binop %v", op)
	}
	if xt.Sort == SBool {
		switch op {
		case token.LAND, token.AND:
			return And(xt, yt)
		case token.LOR, token.OR:
			return Or(xt, yt)
		}
		fault("bool binop %v", op)
	}
	_, signed, _ := bvWidth(t)
	if yt.W != xt.W { // shifts may have different operand widths
		yt = BVResize(yt, xt.W, false)
	}
	switch op {
	case token.ADD:
		return BVBin("bvadd", xt, yt)
	case token.SUB:
		return BVBin("bvsub", xt, yt)
	case token.MUL:
		return BVBin("bvmul", xt, yt)
	case token.QUO:
		i.targetPanicIf(Eq(yt, TBV(yt.W, 0)), "integer divide by zero")
		if signed {
			return BVBin("bvsdiv", xt, yt)
		}
		return BVBin("bvudiv", xt, yt)
	case token.REM:
		i.targetPanicIf(Eq(yt, TBV(yt.W, 0)), "integer divide by zero")
		if signed {
			return BVBin("bvsrem", xt, yt)
		}
		return BVBin("bvurem", xt, yt)
	case token.AND:
		return BVBin("bvand", xt, yt)
	case token.OR:
		return BVBin("bvor", xt, yt)
	case token.XOR:
		return BVBin("bvxor", xt, yt)
	case token.AND_NOT:
		return BVBin("bvand", xt, BVBin("bvxor", yt, TBV(yt.W, ^uint64(0))))
	case token.SHL:
		return BVBin("bvshl", xt, yt)
	case token.SHR:
		if signed {
			return BVBin("bvashr", xt, yt)
		}
		return BVBin("bvlshr", xt, yt)
	case token.LSS:
		if signed {
			return BVCmp("bvslt", xt, yt)
		}
		return BVCmp("bvult", xt, yt)
	case token.LEQ:
		if signed {
			return BVCmp("bvsle", xt, yt)
		}
		return BVCmp("bvule", xt, yt)
	case token.GTR:
		if signed {
			return BVCmp("bvsgt", xt, yt)
		}
		return BVCmp("bvugt", xt, yt)
	case token.GEQ:
		if signed {
			return BVCmp("bvsge", xt, yt)
		}
		return BVCmp("bvuge", xt, yt)
	}
	fault("binop %v", op)
	return nil
}

func (i *Interp) eqv(x, y value) *Term {
	// function values compare only against nil
	switch xf := x.(type) {
	case *ssa.Function:
		if xf == nil {
			switch yf := y.(type) {
			case *ssa.Function:
				return TBool(yf == nil)
			default:
				return TBool(false)
			}
		}
		if yf, ok := y.(*ssa.Function); ok {
			return TBool(yf == xf)
		}
		return TBool(false)
	case *closure:
		if yf, ok := y.(*ssa.Function); ok && yf == nil {
			return TBool(false)
		}
	case *nativeFn:
		if yf, ok := y.(*ssa.Function); ok && yf == nil {
			return TBool(xf == nil)
		}
		return TBool(false)
	}
	if yn, ok := y.(*nativeFn); ok {
		if xf, ok := x.(*ssa.Function); ok && xf == nil {
			return TBool(yn == nil)
		}
		return TBool(false)
	}
	return equals(x, y)
}

func (i *Interp) conv(tdst, tsrc types.Type, x value) value {
	ud, us := tdst.Underlying(), tsrc.Underlying()
	if wd, _, ok := bvWidth(ud); ok {
		if _, ssigned, ok2 := bvWidth(us); ok2 {
			return BVResize(x.(*Term), wd, ssigned)
		}
	}
	if bd, ok := ud.(*types.Basic); ok && bd.Info()&types.IsString != 0 {
		switch xs := x.(type) {
		case *Term:
			if xs.Sort == SStr {
				return xs
			}
			if xs.Const { // string(rune)
				return TStr(string(rune(xs.signed())))
			}
		case symBytes:
			return xs.t
		case []value: // string([]byte)
			r := TStr("")
			for _, b := range xs {
				bt := b.(*Term)
				if !bt.Const {
					fault("string([]byte) with symbolic bytes")
				}
				r = StrConcat(r, TStr(string([]byte{byte(bt.U)})))
			}
			return r
		}
	}
	if _, ok := ud.(*types.Slice); ok {
		if xs, ok := x.(*Term); ok && xs.Sort == SStr && !xs.Const {
			return symBytes{xs}
		}
		if xs, ok := x.(*Term); ok && xs.Sort == SStr && xs.Const { // []byte(string)
			r := make([]value, len(xs.S))
			for k := range r {
				r[k] = TBV(8, uint64(xs.S[k]))
			}
			return r
		}
	}
	if _, ok := ud.(*types.Pointer); ok {
		return x
	}
	fault("conv %v <- %v (%T)", tdst, tsrc, x)
	return nil
}

func (i *Interp) slice(x, lo, hi, max value) value {
	var base []value
	var n, c int
	switch x := x.(type) {
	case []value:
		base, n, c = x, len(x), cap(x)
	case *value:
		if x == nil {
			nilDeref("slice of nil *array")
		}
		a := (*x).(array)
		base, n, c = []value(a), len(a), len(a)
	case *Term: // string slicing
		return i.strSlice(x, lo, hi)
	default:
		fault("slice of %T", x)
	}
	l := int64(0)
	h := int64(n)
	m := int64(c)
	bound := func(v value, def int64, upper int64) int64 {
		if v == nil {
			return def
		}
		t := v.(*Term)
		if t.Const {
			return t.signed()
		}
		oob := Or(BVCmp("bvslt", t, TBV(t.W, 0)), BVCmp("bvsgt", t, TBV(t.W, uint64(upper))))
		i.targetPanicIf(oob, "slice bounds out of range (symbolic)")
		return i.concretizeInt(t, 0, upper)
	}
	l = bound(lo, 0, int64(c))
	h = bound(hi, int64(n), int64(c))
	m = bound(max, int64(c), int64(c))
	if l < 0 || h < l || m < h || m > int64(c) {
		panic(targetPanic{v: iface{t: types.Typ[types.String], v: TStr(fmt.Sprintf("runtime error: slice bounds out of range [%d:%d:%d] cap %d", l, h, m, c))}})
	}
	if base == nil {
		return []value(nil)
	}
	return base[l:h:m]
}

func (i *Interp) strSlice(s *Term, lo, hi value) value {
	n := StrLen(s)
	l := TBV(64, 0)
	h := n
	if lo != nil {
		l = lo.(*Term)
	}
	if hi != nil {
		h = hi.(*Term)
	}
	bad := Or(Or(BVCmp("bvslt", l, TBV(64, 0)), BVCmp("bvsgt", l, h)), BVCmp("bvsgt", h, n))
	i.targetPanicIf(bad, "string slice bounds out of range")
	if s.Const && l.Const && h.Const {
		return TStr(s.S[l.U:h.U])
	}
	return StrSubstr(s, IntOf(l), IntBin("-", IntOf(h), IntOf(l)))
}

func (i *Interp) strIndex(s, idx *Term) value {
	n := StrLen(s)
	bad := Or(BVCmp("bvslt", idx, TBV(64, 0)), BVCmp("bvsge", idx, n))
	i.targetPanicIf(bad, "string index out of range")
	if s.Const && idx.Const {
		return TBV(8, uint64(s.S[idx.U]))
	}
	// byte = code point of the one-character string at idx (ASCII alphabets only)
	return app(SBV, 8, "(_ int2bv 8)", app(SInt, 0, "str.to_code", StrAt(s, IntOf(idx))))
}

func (i *Interp) lookup(instr *ssa.Lookup, x, key value) value {
	switch x := x.(type) {
	case *mapV:
		var v value
		found := false
		if x != nil {
			for k := range x.keys {
				if i.branch(equals(x.keys[k], key)) {
					v, found = copyVal(x.vals[k]), true
					break
				}
			}
		}
		if !found {
			v = zero(instr.X.Type().Underlying().(*types.Map).Elem())
		}
		if instr.CommaOk {
			return tuple{v, TBool(found)}
		}
		return v
	case *Term:
		return i.strIndex(x, key.(*Term))
	}
	fault("lookup on %T", x)
	return nil
}

func (i *Interp) mapSet(m *mapV, key, val value) {
	for k := range m.keys {
		if i.branch(equals(m.keys[k], key)) {
			m.vals[k] = val
			return
		}
	}
	m.keys = append(m.keys, key)
	m.vals = append(m.vals, val)
}

func (i *Interp) mapDelete(m *mapV, key value) {
	if m == nil {
		return
	}
	for k := range m.keys {
		if i.branch(equals(m.keys[k], key)) {
			m.keys = append(m.keys[:k:k], m.keys[k+1:]...)
			m.vals = append(m.vals[:k:k], m.vals[k+1:]...)
			return
		}
	}
}

func (i *Interp) rangeIter(fr *frame, x value, t types.Type) value {
	switch x := x.(type) {
	case *mapV:
		it := &mapIter{m: x}
		if x != nil {
			it.keys = append([]value{}, x.keys...)
			it.vals = append([]value{}, x.vals...)
			// Go ranges over a map in an unspecified order: with the harness parameter
			// __maporder the order of every map range (<= 4 entries) is a symbolic
			// permutation on which the executor forks
			budget := 6
			if b, ok := i.params["__maporder_budget"]; ok {
				budget = b
			}
			inScope := true
			if i.params["__maporder_scope"] == 1 { // only map ranges written in go-task's own code
				inScope = fr != nil && fr.fn.Pkg != nil && strings.HasPrefix(fr.fn.Pkg.Pkg.Path(), modulePath)
				if fr != nil && fr.fn.Pkg == nil && fr.fn.Parent() != nil && fr.fn.Parent().Pkg != nil {
					inScope = strings.HasPrefix(fr.fn.Parent().Pkg.Pkg.Path(), modulePath)
				}
			}
			if n := len(it.keys); i.params["__maporder"] == 1 && inScope && n > 1 && n <= 4 && i.mapOrderForks < budget {
				i.mapOrderForks++
				for k := 0; k < n-1; k++ {
					c := i.ex.choose(n-k, "map-order")
					it.keys[k], it.keys[k+c] = it.keys[k+c], it.keys[k]
					it.vals[k], it.vals[k+c] = it.vals[k+c], it.vals[k]
				}
			}
		}
		return it
	case *Term:
		if !x.Const {
			fault("range over symbolic string")
		}
		return &strIter{s: x.S}
	}
	fault("range over %T", x)
	return nil
}

func (i *Interp) next(it value) value {
	switch it := it.(type) {
	case *mapIter:
		for it.i < len(it.keys) {
			k := it.i
			it.i++
			// entry must still be present (deleted entries are skipped)
			present := false
			for _, mk := range it.m.keys {
				if c := equals(mk, it.keys[k]); c.Const && c.B {
					present = true
				}
			}
			if present {
				return tuple{TBool(true), it.keys[k], copyVal(it.vals[k])}
			}
		}
		return tuple{TBool(false), nil, nil}
	case *strIter:
		if it.i >= len(it.s) {
			return tuple{TBool(false), TBV(64, 0), TBV(32, 0)}
		}
		for k, r := range it.s[it.i:] {
			_ = k
			idx := it.i
			it.i += len(string(r))
			return tuple{TBool(true), TBV(64, uint64(idx)), TBV(32, uint64(r))}
		}
	}
	fault("next on %T", it)
	return nil
}

func (i *Interp) typeAssert(instr *ssa.TypeAssert, itf iface) value {
	var v value
	ok := false
	if itf.t != nil {
		if idst, isI := instr.AssertedType.Underlying().(*types.Interface); isI {
			if types.Implements(itf.t, idst) || i.implementsViaMethodSet(itf.t, idst) {
				v, ok = itf, true
			}
		} else if types.Identical(itf.t, instr.AssertedType) {
			v, ok = copyVal(itf.v), true
		}
	}
	if !ok {
		if !instr.CommaOk {
			panic(targetPanic{v: iface{t: types.Typ[types.String], v: TStr(fmt.Sprintf("interface conversion: %v is not %v", itf.t, instr.AssertedType))}})
		}
		v = zero(instr.AssertedType)
	}
	if instr.CommaOk {
		return tuple{v, TBool(ok)}
	}
	return v
}

func (i *Interp) implementsViaMethodSet(t types.Type, it *types.Interface) bool {
	ms := i.prog.MethodSets.MethodSet(t)
	for k := 0; k < it.NumMethods(); k++ {
		m := it.Method(k)
		sel := ms.Lookup(m.Pkg(), m.Name())
		if sel == nil {
			return false
		}
		if !types.Identical(sel.Type(), m.Type()) {
			return false
		}
	}
	return true
}

func (i *Interp) callBuiltin(caller *frame, fn *ssa.Builtin, args []value) value {
	switch fn.Name() {
	case "append":
		if len(args) == 1 {
			return args[0]
		}
		if s, ok := args[1].(*Term); ok { // append([]byte, string...)
			if !s.Const {
				fault("append of symbolic string to []byte")
			}
			out := append([]value{}, args[0].([]value)...)
			for k := 0; k < len(s.S); k++ {
				out = append(out, TBV(8, uint64(s.S[k])))
			}
			return out
		}
		a := args[0].([]value)
		b := args[1].([]value)
		if len(b) == 0 {
			return a
		}
		// Always reallocate beyond cap; within cap reuse like Go.
		if len(a)+len(b) <= cap(a) {
			r := a[:len(a)+len(b)]
			for k := range b {
				r[len(a)+k] = copyVal(b[k])
			}
			return r
		}
		r := make([]value, len(a)+len(b), (len(a)+len(b))*2)
		for k := range a {
			r[k] = a[k]
		}
		for k := range b {
			r[len(a)+k] = copyVal(b[k])
		}
		return r
	case "copy":
		dst := args[0].([]value)
		n := 0
		switch src := args[1].(type) {
		case []value:
			for n < len(dst) && n < len(src) {
				dst[n] = copyVal(src[n])
				n++
			}
		case *Term:
			if !src.Const {
				fault("copy from symbolic string")
			}
			for n < len(dst) && n < len(src.S) {
				dst[n] = TBV(8, uint64(src.S[n]))
				n++
			}
		}
		return TBV(64, uint64(n))
	case "len":
		switch x := args[0].(type) {
		case *Term:
			return StrLen(x)
		case symBytes:
			return StrLen(x.t)
		case []value:
			return TBV(64, uint64(len(x)))
		case array:
			return TBV(64, uint64(len(x)))
		case *value:
			return TBV(64, uint64(len((*x).(array))))
		case *mapV:
			if x == nil {
				return TBV(64, 0)
			}
			return TBV(64, uint64(len(x.keys)))
		case *chanV:
			if x == nil {
				return TBV(64, 0)
			}
			return TBV(64, uint64(len(x.buf)))
		}
		fault("len of %T", args[0])
	case "cap":
		switch x := args[0].(type) {
		case []value:
			return TBV(64, uint64(cap(x)))
		case array:
			return TBV(64, uint64(len(x)))
		}
		fault("cap of %T", args[0])
	case "delete":
		i.mapDelete(args[0].(*mapV), args[1])
		return nil
	case "clear":
		switch x := args[0].(type) {
		case *mapV:
			if x != nil {
				x.keys, x.vals = nil, nil
			}
		}
		return nil
	case "recover":
		return i.doRecover(caller)
	case "ssa:wrapnilchk":
		if p, ok := args[0].(*value); ok && p == nil {
			nilDeref("wrapnilchk")
		}
		return args[0]
	case "ssa:deferstack":
		return &caller.defers
	case "print", "println":
		return nil
	case "min", "max":
		r := args[0].(*Term)
		for _, a := range args[1:] {
			at := a.(*Term)
			var c *Term
			if fn.Name() == "min" {
				c = BVCmp("bvslt", at, r)
			} else {
				c = BVCmp("bvsgt", at, r)
			}
			r = Ite(c, at, r)
		}
		return r
	}
	fault("builtin %s", fn.Name())
	return nil
}

func (i *Interp) doRecover(caller *frame) value {
	// recover() is called from a deferred function; caller.caller is the panicking frame.
	if caller.caller != nil && caller.caller.panicking {
		caller.caller.panicking = false
		p := caller.caller.panic
		caller.caller.panic = nil
		if tp, ok := p.(targetPanic); ok {
			if v, ok := tp.v.(iface); ok {
				return v
			}
			return iface{t: types.Typ[types.String], v: TStr(fmt.Sprint(tp.v))}
		}
	}
	return iface{}
}
