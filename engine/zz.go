package main

import (
	"fmt"
	"go/types"
	"strings"

	"golang.org/x/tools/go/ssa"
)

// callerIs reports whether the calling frame belongs to function st (or to a
// closure nested in it): a harness stub that calls the function it replaces
// reaches the original.
func callerIs(caller *frame, st *ssa.Function) bool {
	if caller == nil {
		return false
	}
	for f := caller.fn; f != nil; f = f.Parent() {
		if f == st {
			return true
		}
	}
	return false
}

func alphabetRegex(alpha string) string {
	var parts []string
	for k := 0; k < len(alpha); k++ {
		parts = append(parts, "(str.to_re "+smtString(alpha[k:k+1])+")")
	}
	re := parts[0]
	if len(parts) > 1 {
		re = "(re.union " + strings.Join(parts, " ") + ")"
	}
	return re
}

func init() {
	z := map[string]intrinsic{
		zz + "Bool": func(i *Interp, _ *frame, _ *ssa.Function, a []value) value {
			return i.fresh(cstr(a[0]), SBool, 0)
		},
		zz + "Int": func(i *Interp, _ *frame, _ *ssa.Function, a []value) value {
			t := i.fresh(cstr(a[0]), SBV, 64)
			lo, hi := a[1].(*Term), a[2].(*Term)
			i.pc = append(i.pc, BVCmp("bvsge", t, lo), BVCmp("bvsle", t, hi))
			return t
		},
		zz + "Uint8": func(i *Interp, _ *frame, _ *ssa.Function, a []value) value {
			return i.fresh(cstr(a[0]), SBV, 8)
		},
		zz + "Str": func(i *Interp, _ *frame, _ *ssa.Function, a []value) value {
			t := i.fresh(cstr(a[0]), SStr, 0)
			maxLen := a[1].(*Term).signed()
			alpha := cstr(a[2])
			i.pc = append(i.pc, Raw(fmt.Sprintf("(<= (str.len %s) %d)", t.String(), maxLen), t))
			if alpha != "" {
				i.pc = append(i.pc, Raw("(str.in_re "+t.String()+" (re.* "+alphabetRegex(alpha)+"))", t))
			}
			return t
		},
		zz + "Choose": func(i *Interp, _ *frame, _ *ssa.Function, a []value) value {
			n := a[1].(*Term).signed()
			t := i.fresh(cstr(a[0]), SBV, 64)
			i.pc = append(i.pc, BVCmp("bvsge", t, TBV(64, 0)), BVCmp("bvslt", t, TBV(64, uint64(n))))
			// fork value by value: one decision with n alternatives, each checked
			k := i.ex.choose(int(n), "choose")
			c := Eq(t, TBV(64, uint64(k)))
			i.pc = append(i.pc, c)
			return TBV(64, uint64(k))
		},
		zz + "Assume": func(i *Interp, _ *frame, _ *ssa.Function, a []value) value {
			c := a[0].(*Term)
			if !i.branchAssume(c) {
				panic(pathEnd{"assume false"})
			}
			return nil
		},
		zz + "Assert": func(i *Interp, _ *frame, _ *ssa.Function, a []value) value {
			i.assert(a[0].(*Term), cstr(a[1]))
			return nil
		},
		zz + "Reach": func(i *Interp, _ *frame, _ *ssa.Function, a []value) value {
			i.reached[cstr(a[0])]++
			return nil
		},
		zz + "Note": func(i *Interp, _ *frame, _ *ssa.Function, a []value) value {
			if len(i.notes) < 20 {
				i.notes = append(i.notes, termShort(a[0]))
			}
			return nil
		},
		zz + "Param": func(i *Interp, _ *frame, _ *ssa.Function, a []value) value {
			if v, ok := i.params[cstr(a[0])]; ok {
				return TBV(64, uint64(int64(v)))
			}
			return a[1]
		},
		zz + "Native": func(i *Interp, _ *frame, _ *ssa.Function, a []value) value { return TBool(false) },
		zz + "Twin": func(i *Interp, _ *frame, _ *ssa.Function, a []value) value {
			return TBool(i.params["__twin"] == 1)
		},
		zz + "Emit": func(i *Interp, _ *frame, _ *ssa.Function, a []value) value {
			i.yield("emit", nil, &traceObj)
			i.events = append(i.events, structure{a[0], a[1], a[2], TBV(64, uint64(i.cs.cur.id))})
			return nil
		},
		zz + "Trace": func(i *Interp, _ *frame, _ *ssa.Function, a []value) value {
			out := make([]value, len(i.events))
			for k := range out {
				out[k] = copyVal(i.events[k])
			}
			return out
		},
		zz + "ModelTrace": func(i *Interp, _ *frame, _ *ssa.Function, a []value) value { return []value(nil) },
		zz + "DeepEqual": func(i *Interp, _ *frame, _ *ssa.Function, a []value) value {
			return deepEqual(a[0], a[1], map[[2]interface{}]bool{})
		},
		// Kill ends the process of the current invocation (kill -9): control returns to the
		// innermost Try of the harness without running any deferred function of the target,
		// and every goroutine started since is dropped.
		zz + "Kill": func(i *Interp, _ *frame, _ *ssa.Function, a []value) value {
			panic(killSignal{})
		},
		zz + "Try": func(i *Interp, caller *frame, _ *ssa.Function, a []value) value {
			if i.cs.cur.id != 0 {
				fault("zz.Try outside the harness goroutine")
			}
			killed := false
			func() {
				defer func() {
					if r := recover(); r != nil {
						if _, ok := r.(killSignal); !ok {
							panic(r)
						}
						killed = true
					}
				}()
				i.call(caller, 0, a[0], nil)
			}()
			if killed {
				i.afterKill()
			}
			return TBool(killed)
		},
		zz + "OneOf": func(i *Interp, _ *frame, _ *ssa.Function, a []value) value {
			s := a[0].(*Term)
			for _, c := range a[1].([]value) {
				if i.branch(Eq(s, c.(*Term))) {
					return c
				}
			}
			panic(pathEnd{"oneof: no candidate"})
		},
	}
	for k, v := range z {
		intrinsics[k] = v
	}
}

var traceObj int

type killSignal struct{}

// deepEqual is reflect.DeepEqual over interpreter values, producing a Bool term.
func deepEqual(x, y value, seen map[[2]interface{}]bool) *Term {
	switch x := x.(type) {
	case *Term:
		yt, ok := y.(*Term)
		if !ok {
			return TBool(false)
		}
		return Eq(x, yt)
	case *value:
		yp, ok := y.(*value)
		if !ok {
			return TBool(false)
		}
		if x == nil || yp == nil {
			return TBool(x == nil && yp == nil)
		}
		if x == yp {
			return TBool(true)
		}
		k := [2]interface{}{x, yp}
		if seen[k] {
			return TBool(true)
		}
		seen[k] = true
		return deepEqual(*x, *yp, seen)
	case structure:
		ys, ok := y.(structure)
		if !ok || len(ys) != len(x) {
			return TBool(false)
		}
		r := TBool(true)
		for k := range x {
			r = And(r, deepEqual(x[k], ys[k], seen))
		}
		return r
	case array:
		ys, ok := y.(array)
		if !ok || len(ys) != len(x) {
			return TBool(false)
		}
		r := TBool(true)
		for k := range x {
			r = And(r, deepEqual(x[k], ys[k], seen))
		}
		return r
	case []value:
		ys, ok := y.([]value)
		if !ok {
			return TBool(false)
		}
		if (x == nil) != (ys == nil) || len(x) != len(ys) {
			return TBool(false)
		}
		r := TBool(true)
		for k := range x {
			r = And(r, deepEqual(x[k], ys[k], seen))
		}
		return r
	case iface:
		yi, ok := y.(iface)
		if !ok {
			return TBool(false)
		}
		if x.t == nil || yi.t == nil {
			return TBool(x.t == nil && yi.t == nil)
		}
		if !types.Identical(x.t, yi.t) {
			return TBool(false)
		}
		return deepEqual(x.v, yi.v, seen)
	case *mapV:
		ym, ok := y.(*mapV)
		if !ok {
			return TBool(false)
		}
		if x == nil || ym == nil {
			return TBool(x == nil && ym == nil)
		}
		if len(x.keys) != len(ym.keys) {
			return TBool(false)
		}
		r := TBool(true)
		for k := range x.keys {
			// find the key in y (concrete comparison only)
			found := false
			for j := range ym.keys {
				if c := equals(x.keys[k], ym.keys[j]); c.Const && c.B {
					r = And(r, deepEqual(x.vals[k], ym.vals[j], seen))
					found = true
					break
				}
			}
			if !found {
				// positional fallback for symbolic keys
				r = And(r, And(deepEqual(x.keys[k], ym.keys[k], seen), deepEqual(x.vals[k], ym.vals[k], seen)))
			}
		}
		return r
	case *ssa.Function:
		yf, ok := y.(*ssa.Function)
		return TBool(ok && (x == nil) == (yf == nil))
	case *closure:
		_, ok := y.(*closure)
		return TBool(ok)
	case *chanV:
		yc, ok := y.(*chanV)
		return TBool(ok && x == yc)
	case nil:
		return TBool(y == nil)
	case float64:
		yf, ok := y.(float64)
		return TBool(ok && x == yf)
	case symBytes:
		yb, ok := y.(symBytes)
		if !ok {
			return TBool(false)
		}
		return Eq(x.t, yb.t)
	}
	fault("deepEqual: unsupported %T", x)
	return nil
}
