package main

import (
	"fmt"
	"strings"
)

// Sort of an SMT term.
type Sort int

const (
	SBool Sort = iota
	SBV
	SStr
	SInt // mathematical integers: only string lengths and offsets (never Go integers)
)

// Term is an SMT term with eager constant folding. Go scalars (bool, all
// integer types, string) are represented as *Term whether concrete or not.
type Term struct {
	Sort  Sort
	W     int // bit width for SBV
	Op    string
	Args  []*Term
	Const bool
	B     bool
	U     uint64
	S     string
	Name  string // for variables
	txt   string
	vs    map[string]*Term
}

func mask(w int) uint64 {
	if w >= 64 {
		return ^uint64(0)
	}
	return (uint64(1) << uint(w)) - 1
}

func TBool(b bool) *Term        { return &Term{Sort: SBool, Const: true, B: b} }
func TBV(w int, u uint64) *Term { return &Term{Sort: SBV, W: w, Const: true, U: u & mask(w)} }
func TStr(s string) *Term       { return &Term{Sort: SStr, Const: true, S: s} }
func TVar(name string, s Sort, w int) *Term {
	return &Term{Sort: s, W: w, Op: "var", Name: name}
}

func (t *Term) signed() int64 {
	if t.W >= 64 {
		return int64(t.U)
	}
	if t.U&(uint64(1)<<uint(t.W-1)) != 0 {
		return int64(t.U | ^mask(t.W))
	}
	return int64(t.U)
}

func smtString(s string) string {
	var b strings.Builder
	b.WriteByte('"')
	for i := 0; i < len(s); i++ {
		c := s[i]
		switch {
		case c == '"':
			b.WriteString(`""`)
		case c < 0x20 || c > 0x7e || c == '\\':
			fmt.Fprintf(&b, `\u{%x}`, c)
		default:
			b.WriteByte(c)
		}
	}
	b.WriteByte('"')
	return b.String()
}

func (t *Term) String() string {
	if t.txt != "" {
		return t.txt
	}
	var s string
	switch {
	case t.Const && t.Sort == SBool:
		if t.B {
			s = "true"
		} else {
			s = "false"
		}
	case t.Const && t.Sort == SBV:
		s = fmt.Sprintf("(_ bv%d %d)", t.U, t.W)
	case t.Const && t.Sort == SStr:
		s = smtString(t.S)
	case t.Const && t.Sort == SInt:
		s = intLit(int64(t.U))
	case t.Op == "var":
		s = "|" + t.Name + "|"
	default:
		var b strings.Builder
		b.WriteByte('(')
		b.WriteString(t.Op)
		for _, a := range t.Args {
			b.WriteByte(' ')
			b.WriteString(a.String())
		}
		b.WriteByte(')')
		s = b.String()
	}
	t.txt = s
	return s
}

func (t *Term) vars(into map[string]*Term) {
	if t.Op == "var" {
		into[t.Name] = t
		return
	}
	for _, a := range t.Args {
		a.vars(into)
	}
}

func app(s Sort, w int, op string, args ...*Term) *Term {
	return &Term{Sort: s, W: w, Op: op, Args: args}
}

func Not(a *Term) *Term {
	if a.Const {
		return TBool(!a.B)
	}
	if a.Op == "not" {
		return a.Args[0]
	}
	return app(SBool, 0, "not", a)
}
func And(a, b *Term) *Term {
	if a.Const {
		if a.B {
			return b
		}
		return a
	}
	if b.Const {
		if b.B {
			return a
		}
		return b
	}
	return app(SBool, 0, "and", a, b)
}
func Or(a, b *Term) *Term {
	if a.Const {
		if a.B {
			return a
		}
		return b
	}
	if b.Const {
		if b.B {
			return b
		}
		return a
	}
	return app(SBool, 0, "or", a, b)
}
func Eq(a, b *Term) *Term {
	if a.Const && b.Const {
		switch a.Sort {
		case SBool:
			return TBool(a.B == b.B)
		case SBV:
			return TBool(a.U == b.U)
		case SStr:
			return TBool(a.S == b.S)
		case SInt:
			return TBool(a.U == b.U)
		}
	}
	if a == b {
		return TBool(true)
	}
	if a.Sort == SStr {
		if r := replaceAllIdentity(a, b); r != nil {
			return r
		}
		if r := replaceAllIdentity(b, a); r != nil {
			return r
		}
	}
	if a.Sort == SBV && (isI2B(a) || isI2B(b)) {
		if ia, ok := intSide(a); ok {
			if ib, ok := intSide(b); ok {
				return app(SBool, 0, "=", ia, ib)
			}
		}
	}
	return app(SBool, 0, "=", a, b)
}

// replaceAllIdentity: replace_all(x, p, r) = x, for constants p != r with p not empty, holds
// exactly when x has no occurrence of p (an occurrence changes the length, or the bytes at the
// first occurrence): the solvers answer the contains form at once and the replace_all form
// often not at all.
func replaceAllIdentity(a, b *Term) *Term {
	if a.Op != "str.replace_all" || !a.Args[1].Const || !a.Args[2].Const || a.Args[1].S == "" || a.Args[1].S == a.Args[2].S {
		return nil
	}
	if a.Args[0] != b && a.Args[0].String() != b.String() {
		return nil
	}
	return Not(StrContains(a.Args[0], a.Args[1]))
}

func Ite(c, a, b *Term) *Term {
	if c.Const {
		if c.B {
			return a
		}
		return b
	}
	return app(a.Sort, a.W, "ite", c, a, b)
}

// BVBin folds and builds binary bit-vector operations.
// lenSide reports an Int view of a 64-bit term that is built from string
// lengths/offsets and small constants (int2bv is a ring homomorphism, so + and -
// may be pushed inside it; comparisons at sort Int additionally rely on these
// quantities being far from the 64-bit range, which holds for bounded strings).
func lenSide(t *Term) (*Term, bool) {
	if isI2B(t) {
		return t.Args[0], true
	}
	return nil, false
}

func BVBin(op string, a, b *Term) *Term {
	w := a.W
	if w == 64 && (op == "bvadd" || op == "bvsub") && !(a.Const && b.Const) {
		ia, oka := intSide(a)
		ib, okb := intSide(b)
		if oka && okb && (isI2B(a) || isI2B(b)) {
			o := "+"
			if op == "bvsub" {
				o = "-"
			}
			return BVOfInt(IntBin(o, ia, ib))
		}
	}
	if a.Const && b.Const {
		x, y := a.U, b.U
		switch op {
		case "bvadd":
			return TBV(w, x+y)
		case "bvsub":
			return TBV(w, x-y)
		case "bvmul":
			return TBV(w, x*y)
		case "bvand":
			return TBV(w, x&y)
		case "bvor":
			return TBV(w, x|y)
		case "bvxor":
			return TBV(w, x^y)
		case "bvshl":
			if y >= uint64(w) {
				return TBV(w, 0)
			}
			return TBV(w, x<<y)
		case "bvlshr":
			if y >= uint64(w) {
				return TBV(w, 0)
			}
			return TBV(w, x>>y)
		case "bvashr":
			sh := y
			if sh >= uint64(w) {
				sh = uint64(w) - 1
			}
			return TBV(w, uint64(a.signed()>>sh))
		case "bvudiv":
			if y != 0 {
				return TBV(w, x/y)
			}
		case "bvurem":
			if y != 0 {
				return TBV(w, x%y)
			}
		case "bvsdiv":
			if y != 0 {
				return TBV(w, uint64(a.signed()/b.signed()))
			}
		case "bvsrem":
			if y != 0 {
				return TBV(w, uint64(a.signed()%b.signed()))
			}
		}
	}
	return app(SBV, w, op, a, b)
}

func isI2B(t *Term) bool { return t.Op == "(_ int2bv 64)" }

var intOp = map[string]string{"bvult": "<", "bvule": "<=", "bvugt": ">", "bvuge": ">=", "bvslt": "<", "bvsle": "<=", "bvsgt": ">", "bvsge": ">="}

func intSide(t *Term) (*Term, bool) {
	if isI2B(t) {
		return t.Args[0], true
	}
	if t.Const && t.signed() >= -(1<<40) && t.signed() < (1<<40) {
		return TInt(t.signed()), true
	}
	return nil, false
}

func intLit(v int64) string {
	if v < 0 {
		return fmt.Sprintf("(- %d)", -v)
	}
	return fmt.Sprint(v)
}

func BVCmp(op string, a, b *Term) *Term {
	if (isI2B(a) || isI2B(b)) && !(a.Const && b.Const) {
		if ia, ok := intSide(a); ok {
			if ib, ok := intSide(b); ok {
				return app(SBool, 0, intOp[op], ia, ib)
			}
		}
	}
	if a.Const && b.Const {
		switch op {
		case "bvult":
			return TBool(a.U < b.U)
		case "bvule":
			return TBool(a.U <= b.U)
		case "bvugt":
			return TBool(a.U > b.U)
		case "bvuge":
			return TBool(a.U >= b.U)
		case "bvslt":
			return TBool(a.signed() < b.signed())
		case "bvsle":
			return TBool(a.signed() <= b.signed())
		case "bvsgt":
			return TBool(a.signed() > b.signed())
		case "bvsge":
			return TBool(a.signed() >= b.signed())
		}
	}
	return app(SBool, 0, op, a, b)
}

func BVResize(a *Term, w int, signed bool) *Term {
	if a.W == w {
		return a
	}
	if a.Const {
		if signed {
			return TBV(w, uint64(a.signed()))
		}
		return TBV(w, a.U)
	}
	if w < a.W {
		return app(SBV, w, fmt.Sprintf("(_ extract %d 0)", w-1), a)
	}
	if signed {
		return app(SBV, w, fmt.Sprintf("(_ sign_extend %d)", w-a.W), a)
	}
	return app(SBV, w, fmt.Sprintf("(_ zero_extend %d)", w-a.W), a)
}

// String operations.
func StrConcat(a, b *Term) *Term {
	if a.Const && b.Const {
		return TStr(a.S + b.S)
	}
	if a.Const && a.S == "" {
		return b
	}
	if b.Const && b.S == "" {
		return a
	}
	return app(SStr, 0, "str.++", a, b)
}
func StrLen(a *Term) *Term { // returns BV64
	if a.Const {
		return TBV(64, uint64(len(a.S)))
	}
	return BVOfInt(StrLenInt(a))
}

// TInt is an Int constant (kept in U as a signed value).
func TInt(v int64) *Term { return &Term{Sort: SInt, Const: true, U: uint64(v)} }

func StrLenInt(a *Term) *Term {
	if a.Const {
		return TInt(int64(len(a.S)))
	}
	return app(SInt, 0, "str.len", a)
}

// BVOfInt converts a (non-negative, small) Int term to a 64-bit vector.
func BVOfInt(a *Term) *Term {
	if a.Const {
		return TBV(64, a.U)
	}
	return app(SBV, 64, "(_ int2bv 64)", a)
}

// IntOf converts a 64-bit vector holding a length/offset to Int.
func IntOf(a *Term) *Term {
	if a.Sort == SInt {
		return a
	}
	if a.Const {
		return TInt(a.signed())
	}
	if isI2B(a) {
		return a.Args[0]
	}
	return app(SInt, 0, "bv2nat", a)
}

func IntBin(op string, a, b *Term) *Term {
	if a.Const && b.Const {
		x, y := int64(a.U), int64(b.U)
		switch op {
		case "+":
			return TInt(x + y)
		case "-":
			return TInt(x - y)
		}
	}
	return app(SInt, 0, op, a, b)
}

func IntCmp(op string, a, b *Term) *Term {
	if a.Const && b.Const {
		x, y := int64(a.U), int64(b.U)
		switch op {
		case "<":
			return TBool(x < y)
		case "<=":
			return TBool(x <= y)
		case ">":
			return TBool(x > y)
		case ">=":
			return TBool(x >= y)
		case "=":
			return TBool(x == y)
		}
	}
	return app(SBool, 0, op, a, b)
}

func StrSubstr(s, off, n *Term) *Term {
	if s.Const && off.Const && n.Const {
		o, l := int64(off.U), int64(n.U)
		if o < 0 || o >= int64(len(s.S)) || l <= 0 {
			return TStr("")
		}
		if o+l > int64(len(s.S)) {
			l = int64(len(s.S)) - o
		}
		return TStr(s.S[o : o+l])
	}
	return app(SStr, 0, "str.substr", s, off, n)
}

func StrIndexOf(s, sub, from *Term) *Term {
	if s.Const && sub.Const && from.Const {
		f := int64(from.U)
		if f < 0 || f > int64(len(s.S)) {
			return TInt(-1)
		}
		k := strings.Index(s.S[f:], sub.S)
		if k < 0 {
			return TInt(-1)
		}
		return TInt(int64(k) + f)
	}
	return app(SInt, 0, "str.indexof", s, sub, from)
}

func StrReplaceAll(s, old, new *Term) *Term {
	if s.Const && old.Const && new.Const {
		return TStr(strings.ReplaceAll(s.S, old.S, new.S))
	}
	return app(SStr, 0, "str.replace_all", s, old, new)
}

func StrReplaceFirst(s, old, new *Term) *Term {
	if s.Const && old.Const && new.Const {
		return TStr(strings.Replace(s.S, old.S, new.S, 1))
	}
	return app(SStr, 0, "str.replace", s, old, new)
}

func StrFromInt(a *Term) *Term {
	if a.Const {
		return TStr(fmt.Sprint(int64(a.U)))
	}
	return app(SStr, 0, "str.from_int", a)
}

func StrAt(s, k *Term) *Term {
	if s.Const && k.Const {
		if int64(k.U) < 0 || int64(k.U) >= int64(len(s.S)) {
			return TStr("")
		}
		return TStr(s.S[k.U : k.U+1])
	}
	return app(SStr, 0, "str.at", s, k)
}
func StrPrefixOf(p, s *Term) *Term {
	if p.Const && s.Const {
		return TBool(strings.HasPrefix(s.S, p.S))
	}
	return app(SBool, 0, "str.prefixof", p, s)
}
func StrSuffixOf(p, s *Term) *Term {
	if p.Const && s.Const {
		return TBool(strings.HasSuffix(s.S, p.S))
	}
	return app(SBool, 0, "str.suffixof", p, s)
}
func StrContains(s, sub *Term) *Term {
	if sub.Const && s.Const {
		return TBool(strings.Contains(s.S, sub.S))
	}
	return app(SBool, 0, "str.contains", s, sub)
}
func StrLt(a, b *Term) *Term {
	if a.Const && b.Const {
		return TBool(a.S < b.S)
	}
	return app(SBool, 0, "str.<", a, b)
}

// Raw wraps literal SMT text of sort Bool that depends on the given terms.
func Raw(txt string, deps ...*Term) *Term {
	return &Term{Sort: SBool, Op: "raw", Args: deps, txt: txt}
}
