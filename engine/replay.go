package main

import (
	"context"
	"encoding/json"
	"fmt"
	"os"
	"os/exec"
	"path/filepath"
	"regexp"
	"strings"
	"time"
)

var pkgClause = regexp.MustCompile(`(?m)^package\s+(\w+)`)

// harnessPkgName finds the Go package name of the harness files of a package dir.
func harnessPkgName(pkg string) string {
	dir := filepath.Join(verifDir, "harness", pkg)
	ents, _ := os.ReadDir(dir)
	for _, e := range ents {
		if strings.HasSuffix(e.Name(), ".go") {
			b, _ := os.ReadFile(filepath.Join(dir, e.Name()))
			if m := pkgClause.FindSubmatch(b); m != nil {
				return string(m[1])
			}
		}
	}
	return "task"
}

// nativeOverlay writes the go build overlay that injects the harness files, the
// native zzsym and the generated replay test into /repo's packages.
func nativeOverlay(spec HarnessSpec, tag string, testBody string) (overlayFile string, err error) {
	dir := filepath.Join(verifDir, "replays")
	os.MkdirAll(dir, 0o755)
	repl := map[string]string{}
	hdir := filepath.Join(verifDir, "harness")
	filepath.Walk(hdir, func(p string, info os.FileInfo, err error) error {
		if err == nil && !info.IsDir() && strings.HasSuffix(p, ".go") {
			rel, _ := filepath.Rel(hdir, p)
			if rel == "internal/zzsym/sym.go" {
				return nil
			}
			repl[filepath.Join(repoDir, rel)] = p
		}
		return nil
	})
	repl[filepath.Join(repoDir, "internal/zzsym/sym.go")] = filepath.Join(verifDir, "native", "sym_native.go")
	testFile := filepath.Join(dir, tag+"_test.go")
	if err := os.WriteFile(testFile, []byte(testBody), 0o644); err != nil {
		return "", err
	}
	repl[filepath.Join(repoDir, spec.Pkg, "zz_replay_test.go")] = testFile
	b, _ := json.Marshal(map[string]any{"Replace": repl})
	overlayFile = filepath.Join(dir, tag+"_overlay.json")
	return overlayFile, os.WriteFile(overlayFile, b, 0o644)
}

func replaySpec(spec HarnessSpec) HarnessSpec {
	if spec.ReplayFunc != "" {
		spec.Pkg, spec.Func = spec.ReplayPkg, spec.ReplayFunc
	}
	return spec
}

func replayTestBody(spec HarnessSpec) string {
	return fmt.Sprintf(`package %s

import (
	"fmt"
	"testing"

	zzreplay "github.com/go-task/task/v3/internal/zzsym"
)

func TestZZReplay(t *testing.T) {
	defer func() {
		if r := recover(); r != nil && !zzreplay.IsAssumeFalse(r) {
			fmt.Printf("ZZ-PANIC %%v\n", r)
		}
		for _, e := range zzreplay.Trace() {
			fmt.Printf("ZZ-TRACE %%s %%s\n", e.Kind, e.ID)
		}
		fmt.Println("ZZ-END")
	}()
	%s()
}
`, harnessPkgName(spec.Pkg), spec.Func)
}

// curTier is the tier of the running check; replayParams (set when replaying a saved
// counterexample) takes precedence.
var (
	curTier      = "quick"
	replayParams map[string]int
)

// nativeParams are the harness parameters of the symbolic run that produced a model: the
// native run must use the same bounds, or it plays a different scenario.
func nativeParams(spec HarnessSpec) map[string]int {
	params := map[string]int{}
	if replayParams != nil {
		for k, v := range replayParams {
			params[k] = v
		}
		return params
	}
	for k, v := range spec.Params {
		params[k] = v
	}
	if curTier == "thorough" {
		for k, v := range spec.TParams {
			params[k] = v
		}
	}
	for k, v := range cliParams {
		if !strings.HasPrefix(k, "__") {
			params[k] = v
		}
	}
	return params
}

// replayNative runs the harness natively against the real build with the
// model's values and reports whether the same violation shows.
func replayNative(ld *Loaded, spec HarnessSpec, v Violation) (bool, string, string) {
	tag := fmt.Sprintf("%s_%s_%x", spec.Prop, spec.Func, hashString(v.sig()))
	params := nativeParams(spec)
	mb, _ := json.Marshal(map[string]any{"Model": v.Model, "Params": params, "Trace": v.Trace})
	dir := filepath.Join(verifDir, "replays")
	os.MkdirAll(dir, 0o755)
	modelFile := filepath.Join(dir, tag+"_model.json")
	os.WriteFile(modelFile, mb, 0o644)
	attempts := 1
	if spec.POR {
		attempts = 3 // schedule-dependent: the steering of the real scheduler is best effort
	}
	var out string
	var err error
	ok := false
	for a := 0; a < attempts && !ok; a++ {
		out, err = runNative(replaySpec(spec), tag, modelFile, 240*time.Second)
		ok = confirms(v, out, spec.POR)
	}
	if err != nil && !ok {
		out += "\n[replay error: " + err.Error() + "]"
	}
	path := writeReplayFile(spec, v, out)
	return ok, out, path
}

// labelClass is the assertion class of a label: the part before the first '/'
// (the rest names the instance, which symmetric schedules may permute).
func labelClass(l string) string {
	if k := strings.Index(l, "/"); k >= 0 {
		return l[:k]
	}
	return l
}

func confirms(v Violation, out string, byClass bool) bool {
	ok := false
	switch v.Kind {
	case "assert":
		for _, line := range strings.Split(out, "\n") {
			if !strings.HasPrefix(line, "ZZ-VIOLATED ") {
				continue
			}
			got := strings.TrimPrefix(line, "ZZ-VIOLATED ")
			// schedule-dependent harnesses: symmetric schedules may permute the instance
			if got == v.Label || (byClass && labelClass(got) == labelClass(v.Label)) {
				ok = true
			}
		}
	case "panic":
		ok = strings.Contains(out, "ZZ-PANIC") || strings.Contains(out, "panic:") || strings.Contains(out, "fatal error:")
	case "deadlock":
		ok = strings.Contains(out, "ZZ-TIMEOUT") || strings.Contains(out, "all goroutines are asleep")
	case "race":
		ok = strings.Contains(out, "WARNING: DATA RACE")
	}
	return ok
}

func runNative(spec HarnessSpec, tag, modelFile string, timeout time.Duration) (string, error) {
	ov, err := nativeOverlay(spec, tag, replayTestBody(spec))
	if err != nil {
		return "", err
	}
	ctx, cancel := context.WithTimeout(context.Background(), timeout)
	defer cancel()
	pat := "./" + spec.Pkg
	if spec.Pkg == "" {
		pat = "."
	}
	args := []string{"test", "-vet=off", "-count=1", "-overlay", ov, "-run", "^TestZZReplay$", "-v", "-timeout", "120s"}
	if strings.Contains(spec.Replay, "race") {
		args = append(args, "-race")
	}
	args = append(args, pat)
	cmd := exec.CommandContext(ctx, "go", args...)
	cmd.Dir = repoDir
	cmd.Env = append(os.Environ(), "GOFLAGS=-mod=mod", "GOPROXY=off", "GOSUMDB=off", "GOTOOLCHAIN=local", "ZZ_MODEL="+modelFile)
	b, err := cmd.CombinedOutput()
	out := string(b)
	if ctx.Err() != nil || strings.Contains(out, "test timed out") {
		out += "\nZZ-TIMEOUT\n"
	}
	return out, err
}

func cmdReplay(path string) int {
	b, err := os.ReadFile(path)
	if err != nil {
		fmt.Fprintln(os.Stderr, err)
		return 2
	}
	var r struct {
		Property  string
		Harness   string
		Tag       string
		Pkg       string
		Violation Violation
		Params    map[string]int
	}
	if err := json.Unmarshal(b, &r); err != nil {
		fmt.Fprintln(os.Stderr, err)
		return 2
	}
	var spec *HarnessSpec
	for k := range allSpecs {
		if allSpecs[k].Func == r.Harness && allSpecs[k].Tag == r.Tag {
			spec = &allSpecs[k]
		}
	}
	if spec == nil {
		fmt.Fprintln(os.Stderr, "unknown harness", r.Harness)
		return 2
	}
	replayParams = r.Params
	ok, out, _ := replayNative(nil, *spec, r.Violation)
	fmt.Println(out)
	if ok {
		fmt.Printf("VIOLATION property=%s replay=%s\n", r.Property, path)
		return 1
	}
	fmt.Println("not reproduced")
	return 0
}

// validateSample re-runs one explored, non-violating path natively with its model
// (translator validation): the real build must also end without a violated
// assertion or panic, and for traced harnesses start and finish the same probes.
func validateSample(spec HarnessSpec, smp PathSample, n int) (bool, string) {
	tag := fmt.Sprintf("%s_%s_sample%d", spec.Prop, strings.NewReplacer("[", "_", "]", "", "=", "", ",", "_").Replace(spec.name()), n)
	params := nativeParams(spec)
	mb, _ := json.Marshal(map[string]any{"Model": smp.Model, "Params": params, "Trace": smp.Trace})
	dir := filepath.Join(verifDir, "replays")
	os.MkdirAll(dir, 0o755)
	modelFile := filepath.Join(dir, tag+"_model.json")
	os.WriteFile(modelFile, mb, 0o644)
	out, _ := runNative(replaySpec(spec), tag, modelFile, 120*time.Second)
	os.Remove(modelFile)
	if os.Getenv("GOSMT_DEBUG_SAMPLE") != "" {
		fmt.Printf("--- sample %s model=%s\n%s\n---\n", tag, mb, out)
	}
	if strings.Contains(out, "ZZ-ASSUME-FALSE") {
		return false, "assumption not satisfiable natively"
	}
	if !strings.Contains(out, "ZZ-END") {
		return false, "native run did not finish"
	}
	for _, line := range strings.Split(out, "\n") {
		if strings.HasPrefix(line, "ZZ-VIOLATED ") || strings.HasPrefix(line, "ZZ-PANIC") {
			if strings.HasPrefix(line, "ZZ-VIOLATED ") && knownLabel(spec, strings.TrimPrefix(line, "ZZ-VIOLATED ")) {
				continue
			}
			return false, "native run disagrees: " + line
		}
	}
	// compare the multiset of started/finished probes
	want := map[string]int{}
	traced := false
	for _, l := range smp.Trace {
		f := strings.Fields(l)
		if len(f) >= 3 && (f[1] == "S" || f[1] == "F") && f[2] != "" {
			want[f[1]+" "+f[2]]++
			traced = true
		}
	}
	if traced && spec.ReplayFunc == "" {
		got := map[string]int{}
		for _, line := range strings.Split(out, "\n") {
			if strings.HasPrefix(line, "ZZ-TRACE ") {
				got[strings.TrimPrefix(line, "ZZ-TRACE ")]++
			}
		}
		if len(got) > 0 {
			for k, n := range want {
				if got[k] != n {
					return false, fmt.Sprintf("native trace differs: %s ×%d natively, ×%d symbolically (model %v)", k, got[k], n, smp.Model)
				}
			}
		}
	}
	return true, ""
}

// knownLabel: the native run of a sample may legitimately show a listed known finding.
func knownLabel(spec HarnessSpec, label string) bool {
	for _, kf := range loadKnown() {
		if kf.Status == "known" && kf.Property == spec.Prop && strings.Contains(kf.Signature, label) {
			return true
		}
	}
	return false
}
