package main

import (
	"fmt"
	"go/types"
	"strings"

	"golang.org/x/tools/go/ssa"
)

type intrinsic func(i *Interp, caller *frame, fn *ssa.Function, args []value) value

var intrinsics = map[string]intrinsic{}

const zz = "github.com/go-task/task/v3/internal/zzsym."

func cstr(v value) string {
	t := v.(*Term)
	if !t.Const {
		fault("expected concrete string")
	}
	return t.S
}

var errType types.Type // set in main: type of errors.New result placeholder

func mkError(msg *Term) value { return mkWrapError(msg, iface{}) }

// errFields returns {message, wrapped} of an engine-made error value.
func errFields(e iface) structure { return (*e.v.(*value)).(structure) }

func mkWrapError(msg *Term, wrapped value) value {
	p := new(value)
	*p = structure{msg, wrapped}
	return iface{t: errType, v: p}
}

// unwrapOnce returns the errors wrapped by err (Unwrap() error / []error).
func (i *Interp) unwrapOnce(caller *frame, err iface) []iface {
	if err.t == errType {
		w := errFields(err)[1].(iface)
		if w.t == nil {
			return nil
		}
		return []iface{w}
	}
	f := i.method(err.t, "Unwrap")
	if f == nil {
		return nil
	}
	r := i.call(caller, 0, f, []value{err.v})
	switch r := r.(type) {
	case iface:
		if r.t == nil {
			return nil
		}
		return []iface{r}
	case []value:
		var out []iface
		for _, x := range r {
			if xi := x.(iface); xi.t != nil {
				out = append(out, xi)
			}
		}
		return out
	}
	return nil
}

func (i *Interp) errorsIs(caller *frame, err, target iface, depth int) bool {
	if depth > 20 {
		fault("errors.Is: chain too deep")
	}
	if err.t == nil || target.t == nil {
		return err.t == nil && target.t == nil
	}
	if types.Identical(err.t, target.t) && types.Comparable(err.t) {
		if c := equals(err.v, target.v); i.branch(c) {
			return true
		}
	}
	if err.t != errType {
		if f := i.method(err.t, "Is"); f != nil {
			if r := i.call(caller, 0, f, []value{err.v, target}).(*Term); i.branch(r) {
				return true
			}
		}
	}
	for _, w := range i.unwrapOnce(caller, err) {
		if i.errorsIs(caller, w, target, depth+1) {
			return true
		}
	}
	return false
}

func (i *Interp) errorsAs(caller *frame, err iface, ptr *value, T types.Type, depth int) bool {
	if depth > 20 {
		fault("errors.As: chain too deep")
	}
	if err.t == nil {
		return false
	}
	if it, ok := T.Underlying().(*types.Interface); ok {
		if types.Implements(err.t, it) {
			*ptr = err
			return true
		}
	} else if types.Identical(err.t, T) {
		*ptr = copyVal(err.v)
		return true
	}
	if err.t != errType {
		if f := i.method(err.t, "As"); f != nil {
			fault("errors.As: As method not supported")
		}
	}
	for _, w := range i.unwrapOnce(caller, err) {
		if i.errorsAs(caller, w, ptr, T, depth+1) {
			return true
		}
	}
	return false
}

func init() {
	_ = 0
	base := map[string]intrinsic{
		"strings.HasPrefix": func(i *Interp, _ *frame, _ *ssa.Function, a []value) value {
			return StrPrefixOf(a[1].(*Term), a[0].(*Term))
		},
		"strings.HasSuffix": func(i *Interp, _ *frame, _ *ssa.Function, a []value) value {
			return StrSuffixOf(a[1].(*Term), a[0].(*Term))
		},
		"strings.Contains": func(i *Interp, _ *frame, _ *ssa.Function, a []value) value {
			return StrContains(a[0].(*Term), a[1].(*Term))
		},
		"strings.TrimPrefix_": func(i *Interp, _ *frame, _ *ssa.Function, a []value) value {
			s, p := a[0].(*Term), a[1].(*Term)
			if s.Const && p.Const {
				return TStr(strings.TrimPrefix(s.S, p.S))
			}
			rest := StrSubstr(s, StrLenInt(p), StrLenInt(s))
			return Ite(StrPrefixOf(p, s), rest, s)
		},
		"fmt.Sprintf": func(i *Interp, caller *frame, _ *ssa.Function, a []value) value {
			return i.sprintfC(caller, cstr(a[0]), a[1].([]value))
		},
		"fmt.Sprint": func(i *Interp, caller *frame, _ *ssa.Function, a []value) value {
			r := TStr("")
			for _, x := range a[0].([]value) {
				r = StrConcat(r, i.formatValue(caller, x.(iface), 'v'))
			}
			return r
		},
		"fmt.Errorf": func(i *Interp, caller *frame, _ *ssa.Function, a []value) value {
			format := cstr(a[0])
			args := a[1].([]value)
			msg := i.sprintfC(caller, format, args)
			if k := strings.Index(format, "%w"); k >= 0 {
				n := strings.Count(strings.ReplaceAll(format[:k], "%%", ""), "%")
				if n < len(args) {
					return mkWrapError(msg, args[n])
				}
			}
			return mkError(msg)
		},
		"errors.New": func(i *Interp, _ *frame, _ *ssa.Function, a []value) value {
			return mkError(a[0].(*Term))
		},
		"errors.Is": func(i *Interp, caller *frame, _ *ssa.Function, a []value) value {
			return TBool(i.errorsIs(caller, a[0].(iface), a[1].(iface), 0))
		},
		"errors.As": func(i *Interp, caller *frame, _ *ssa.Function, a []value) value {
			tgt := a[1].(iface)
			pt, ok := tgt.t.(*types.Pointer)
			if !ok {
				fault("errors.As: target is not a pointer")
			}
			return TBool(i.errorsAs(caller, a[0].(iface), tgt.v.(*value), pt.Elem(), 0))
		},
		"errors.Unwrap": func(i *Interp, caller *frame, _ *ssa.Function, a []value) value {
			e := a[0].(iface)
			if e.t == nil {
				return iface{}
			}
			if e.t == errType {
				return errFields(e)[1]
			}
			f := i.method(e.t, "Unwrap")
			if f == nil {
				return iface{}
			}
			if r, ok := i.call(caller, 0, f, []value{e.v}).(iface); ok {
				return r
			}
			return iface{}
		},
	}
	for k, v := range base {
		intrinsics[k] = v
	}
}

func (i *Interp) sprintf(format string, args []value) *Term { return i.sprintfC(nil, format, args) }

// formatValue renders one operand for the verbs s v q d w x.
func (i *Interp) formatValue(caller *frame, arg iface, verb byte) *Term {
	if arg.t == nil {
		return TStr("<nil>")
	}
	// error / Stringer
	if verb != 'd' && verb != 'x' {
		if arg.t == errType {
			return errFields(arg)[0].(*Term)
		}
		if _, isBasic := arg.t.Underlying().(*types.Basic); !isBasic || i.method(arg.t, "String") != nil || i.method(arg.t, "Error") != nil {
			for _, m := range []string{"Error", "String"} {
				if f := i.method(arg.t, m); f != nil && f.Signature.Params().Len() == 0 && f.Signature.Results().Len() == 1 {
					if r, ok := i.call(caller, 0, f, []value{arg.v}).(*Term); ok && r.Sort == SStr {
						return r
					}
				}
			}
		}
	}
	switch v := arg.v.(type) {
	case *Term:
		switch v.Sort {
		case SStr:
			if verb == 'q' {
				if v.Const {
					return TStr(fmt.Sprintf("%q", v.S))
				}
				return StrConcat(StrConcat(TStr(`"`), v), TStr(`"`))
			}
			if verb == 'x' && v.Const {
				return TStr(fmt.Sprintf("%x", v.S))
			}
			return v
		case SBV:
			if v.Op == "hs.digest" {
				return StrConcat(TStr("#"), v.Args[0])
			}
			if v.Const {
				_, signed, _ := bvWidth(arg.t)
				if verb == 'x' {
					return TStr(fmt.Sprintf("%x", v.U))
				}
				if signed {
					return TStr(fmt.Sprint(v.signed()))
				}
				return TStr(fmt.Sprint(v.U))
			}
			return StrFromInt(IntOf(BVResize(v, 64, false)))
		case SBool:
			return Ite(v, TStr("true"), TStr("false"))
		}
	case []value:
		r := TStr("[")
		for k, x := range v {
			if k > 0 {
				r = StrConcat(r, TStr(" "))
			}
			et := arg.t.Underlying().(*types.Slice).Elem()
			xi, ok := x.(iface)
			if !ok {
				xi = iface{t: et, v: x}
			}
			r = StrConcat(r, i.formatValue(caller, xi, verb))
		}
		return StrConcat(r, TStr("]"))
	case *value:
		if v == nil {
			return TStr("<nil>")
		}
		return TStr("0xc000000000")
	}
	return TStr(fmt.Sprintf("<%v>", arg.t))
}

func (i *Interp) sprintfC(caller *frame, format string, args []value) *Term {
	r := TStr("")
	ai := 0
	for k := 0; k < len(format); k++ {
		c := format[k]
		if c != '%' {
			r = StrConcat(r, TStr(string(c)))
			continue
		}
		k++
		if k >= len(format) {
			r = StrConcat(r, TStr("%!(NOVERB)")) // as fmt does for a lone % at the end
			break
		}
		// flags / width (only constant-width padding of constants is supported)
		start := k
		for k < len(format) && strings.IndexByte("+-# 0123456789.", format[k]) >= 0 {
			k++
		}
		if k >= len(format) {
			break
		}
		mods := format[start:k]
		switch format[k] {
		case '%':
			r = StrConcat(r, TStr("%"))
		case 's', 'v', 'q', 'd', 'w', 'x', 'T':
			if ai >= len(args) {
				r = StrConcat(r, TStr("%!"+string(format[k])+"(MISSING)"))
				continue
			}
			arg := args[ai].(iface)
			ai++
			if format[k] == 'T' {
				if arg.t == nil {
					r = StrConcat(r, TStr("<nil>"))
				} else {
					r = StrConcat(r, TStr(arg.t.String()))
				}
				continue
			}
			piece := i.formatValue(caller, arg, format[k])
			if mods != "" {
				if !piece.Const {
					fault("sprintf: width/flags %q on a symbolic operand", mods)
				}
				// re-render natively with the modifiers
				var nat any = piece.S
				if format[k] == 'd' || format[k] == 'x' {
					nat = arg.v.(*Term).signed()
				}
				piece = TStr(fmt.Sprintf("%"+mods+string(format[k]), nat))
			}
			r = StrConcat(r, piece)
		default:
			fault("sprintf verb %%%c", format[k])
		}
	}
	return r
}

func (i *Interp) branchAssume(c *Term) bool {
	if c.Const {
		return c.B
	}
	r := i.solver.CheckFocus(i.pc, c)
	if r == "unsat" {
		return false
	}
	i.pc = append(i.pc, c)
	return true
}

func (i *Interp) assert(c *Term, label string) {
	i.reached["assert:"+label]++
	if c.Const && c.B {
		return
	}
	r := i.solver.CheckFocus(i.pc, Not(c))
	var model map[string]string
	if r == "sat" && i.params["__twin"] != 1 {
		_, model = i.solver.CheckAll(append(append([]*Term{}, i.pc...), Not(c)))
	}
	if r == "unsat" && i.params["__cross"] == 1 {
		// thorough tier: the discharged assertion is re-asked of the other solver
		i.crossChecked++
		if r2 := i.solver.CrossCheck(sliceFor(i.pc, Not(c))); r2 == "sat" {
			fault("solver disagreement on assertion %q: primary unsat, secondary sat", label)
		}
	}
	switch r {
	case "sat":
		i.violations = append(i.violations, Violation{Label: label, Model: model, Kind: "assert"})
		// continue on the side where the assertion holds
		i.branchAssume(c)
	case "unsat":
	default:
		i.violations = append(i.violations, Violation{Label: label, Kind: "unknown"})
	}
}

func init() {
	tp := "github.com/go-task/task/v3/internal/templater."
	more := map[string]intrinsic{
		tp + "ReplaceWithExtra": templaterReplace,
		"github.com/go-task/slim-sprig/v3.TxtFuncMap": func(i *Interp, caller *frame, _ *ssa.Function, a []value) value {
			return &mapV{} // the sprig table is not modelled: its functions are engine faults in templates
		},
		tp + "ResolveRef": func(i *Interp, caller *frame, _ *ssa.Function, a []value) value {
			ref := a[0].(*Term)
			if !ref.Const {
				fault("templater.ResolveRef: symbolic ref")
			}
			name := strings.TrimPrefix(strings.TrimSpace(ref.S), ".")
			v, ok := i.templateLookup(caller, a[1], nil, name)
			if !ok {
				return iface{}
			}
			return v
		},
		tp + "ResolveRefWithExtra": func(i *Interp, caller *frame, _ *ssa.Function, a []value) value {
			ref := a[0].(*Term)
			if !ref.Const {
				fault("templater.ResolveRefWithExtra: symbolic ref")
			}
			name := strings.TrimPrefix(strings.TrimSpace(ref.S), ".")
			extra, _ := a[2].(*mapV)
			v, ok := i.templateLookup(caller, a[1], extra, name)
			if !ok {
				return iface{}
			}
			return v
		},
		"(*github.com/Masterminds/semver/v3.Version).Equal": func(i *Interp, _ *frame, _ *ssa.Function, a []value) value {
			return TBool(true)
		},
		"github.com/go-task/task/v3/internal/version.GetVersion": func(i *Interp, _ *frame, _ *ssa.Function, a []value) value {
			return TStr("v0")
		},
	}
	for k, v := range more {
		intrinsics[k] = v
	}
}

// ---- templater model ---------------------------------------------------------------------
//
// text/template + reflection (templater.ReplaceWithExtra, deepcopy.TraverseStringsFunc) are
// not encoded. Contract of the stub: every string reachable in the value is rendered by
// replacing each "{{.NAME}}" with the value of NAME (extra first, then the cache's Vars;
// missing names render empty). Any other template syntax in a harness Taskfile is an engine
// fault; symbolic strings are template-free by harness construction and returned unchanged
// (unless __tmplsym=1, see templateRender).

func (i *Interp) templateLookup(caller *frame, cache value, extra *mapV, name string) (iface, bool) {
	if extra != nil {
		for k := range extra.keys {
			if kt, ok := extra.keys[k].(*Term); ok && kt.Const && kt.S == name {
				return extra.vals[k].(iface), true
			}
		}
	}
	cp, _ := cache.(*value)
	if cp == nil {
		return iface{}, false
	}
	varsPtr := (*cp).(structure)[0] // Cache.Vars
	get := i.method(types.NewPointer(i.ld.namedType(modulePath+"/taskfile/ast", "Vars")), "Get")
	if get == nil {
		fault("templater model: (*ast.Vars).Get not found")
	}
	r := i.call(caller, 0, get, []value{varsPtr, TStr(name)}).(tuple)
	if !i.branch(r[1].(*Term)) {
		return iface{}, false
	}
	v := r[0].(structure) // ast.Var{Value, Live, Sh, Ref, Dir}
	if live, ok := v[1].(iface); ok && live.t != nil {
		return live, true
	}
	return v[0].(iface), true
}

func (i *Interp) templateRender(caller *frame, s *Term, cache value, extra *mapV) *Term {
	if !s.Const {
		// Symbolic text. By default harnesses keep symbolic strings template-free (stated
		// assumption). With __tmplsym the text reaching the template engine is decided by the
		// solver: when it can contain an action opener the engine interprets it, and the
		// model over-approximates the rendering by an unconstrained string (the native replay
		// runs the real engine on the solver's bytes).
		if i.params["__tmplsym"] == 1 && i.branch(StrContains(s, TStr("{{"))) {
			where := ""
			for c, n := caller, 0; c != nil && n < 3; c, n = c.caller, n+1 {
				where += " <- " + c.fn.Name()
			}
			i.notes = append(i.notes, "template engine interprets symbolic text "+termShort(s)+where)
			return i.fresh("tmpl$rendered", SStr, 0)
		}
		return s
	}
	if !strings.Contains(s.S, "{{") {
		return s
	}
	out := TStr("")
	rest := s.S
	for {
		k := strings.Index(rest, "{{")
		if k < 0 {
			out = StrConcat(out, TStr(rest))
			break
		}
		out = StrConcat(out, TStr(rest[:k]))
		e := strings.Index(rest[k:], "}}")
		if e < 0 {
			fault("templater model: unterminated action in %q", s.S)
		}
		action := strings.TrimSpace(rest[k+2 : k+e])
		rest = rest[k+e+2:]
		// "fn .NAME" and ".NAME | fn": a one-argument function of go-task's own table
		// (funcs.go, executed from its source), applied to a variable
		fnName := ""
		if f := strings.Fields(action); len(f) == 2 && !strings.HasPrefix(f[0], ".") && strings.HasPrefix(f[1], ".") {
			fnName, action = f[0], f[1]
		} else if len(f) == 3 && f[1] == "|" && strings.HasPrefix(f[0], ".") {
			fnName, action = f[2], f[0]
		}
		if !strings.HasPrefix(action, ".") || strings.ContainsAny(action, " |()") {
			fault("templater model: unsupported template action %q", action)
		}
		if fnName != "" {
			v, ok := i.templateLookup(caller, cache, extra, action[1:])
			out = StrConcat(out, i.templateCallFunc(caller, cache, fnName, v, ok))
			continue
		}
		path := strings.Split(action[1:], ".")
		v, ok := i.templateLookup(caller, cache, extra, path[0])
		for _, key := range path[1:] {
			if !ok || v.t == nil {
				break
			}
			m, isMap := v.v.(*mapV)
			if !isMap || m == nil {
				ok = false
				break
			}
			found := false
			for k := range m.keys {
				if kt, isT := m.keys[k].(*Term); isT && kt.Const && kt.S == key {
					v, found = m.vals[k].(iface), true
					break
				}
			}
			ok = found
		}
		if ok && v.t != nil {
			out = StrConcat(out, i.formatValue(caller, v, 'v'))
		} else if i.params["__tmplsrc"] == 1 {
			out = StrConcat(out, TStr("<no value>")) // removed again by the templater's own clean-up
		}
	}
	return out
}

// templateCallFunc applies an entry of templater.templateFuncs (built by the package's own
// init() from funcs.go) to one variable value. A missing variable, a non-string value, an
// unknown function or an error result follow text/template: rendering fails, which the
// templater records in cache.err, returning the value it was given unchanged.
func (i *Interp) templateCallFunc(caller *frame, cache value, fnName string, arg iface, found bool) *Term {
	pkg := i.prog.ImportedPackage(modulePath + "/internal/templater")
	if pkg == nil {
		fault("templater model: package not loaded")
	}
	g, _ := pkg.Members["templateFuncs"].(*ssa.Global)
	if g == nil {
		fault("templater model: templateFuncs not found")
	}
	table, _ := (*i.global(g)).(*mapV)
	var fn value
	if table != nil {
		for k := range table.keys {
			if kt, ok := table.keys[k].(*Term); ok && kt.Const && kt.S == fnName {
				if f, isI := table.vals[k].(iface); isI {
					fn = f.v
				}
			}
		}
	}
	if fn == nil {
		fault("templater model: template function %q is not in go-task's own table", fnName)
	}
	fail := func(msg string) *Term {
		panic(tmplFail{mkError(TStr("template: " + msg)).(iface)})
	}
	s, isStr := arg.v.(*Term)
	if !found || arg.t == nil || !isStr || s.Sort != SStr {
		return fail("wrong type for value; expected string")
	}
	r := i.call(caller, 0, fn, []value{s})
	if t, ok := r.(tuple); ok {
		if e, isI := t[len(t)-1].(iface); isI && e.t != nil {
			panic(tmplFail{e})
		}
		r = t[0]
	}
	if rt, ok := r.(*Term); ok && rt.Sort == SStr {
		return rt
	}
	fault("templater model: template function %q returns an unsupported value", fnName)
	return nil
}

func (i *Interp) templateTraverse(caller *frame, v value, cache value, extra *mapV) value {
	switch x := v.(type) {
	case *Term:
		if x.Sort == SStr {
			return i.templateRender(caller, x, cache, extra)
		}
		return x
	case []value:
		if x == nil {
			return x
		}
		out := make([]value, len(x))
		for k := range x {
			out[k] = i.templateTraverse(caller, x[k], cache, extra)
		}
		return out
	case iface:
		if x.t == nil {
			return x
		}
		return iface{t: x.t, v: i.templateTraverse(caller, x.v, cache, extra)}
	case *value:
		if x == nil {
			return x
		}
		if t, ok := (*x).(*Term); ok && t.Sort == SStr {
			p := new(value)
			*p = i.templateRender(caller, t, cache, extra)
			return p
		}
		return x
	case *mapV:
		if x == nil {
			return x
		}
		out := &mapV{}
		for k := range x.keys {
			out.keys = append(out.keys, x.keys[k])
			out.vals = append(out.vals, i.templateTraverse(caller, x.vals[k], cache, extra))
		}
		return out
	}
	return v
}

func templaterReplace(i *Interp, caller *frame, _ *ssa.Function, a []value) value {
	cp, _ := a[1].(*value)
	if cp == nil {
		nilDeref("templater cache")
	}
	if e, ok := (*cp).(structure)[2].(iface); ok && e.t != nil {
		return a[0] // cache.err != nil: do nothing
	}
	extra, _ := a[2].(*mapV)
	var out value
	func() {
		defer func() {
			if r := recover(); r != nil {
				tf, ok := r.(tmplFail)
				if !ok {
					panic(r)
				}
				(*cp).(structure)[2] = tf.err
				out = a[0]
			}
		}()
		out = i.templateTraverse(caller, a[0], a[1], extra)
	}()
	return out
}

// tmplFail unwinds a rendering that text/template would abort with an error.
type tmplFail struct{ err iface }
