package main

import (
	"fmt"
	"go/types"
	"strings"

	"golang.org/x/tools/go/ssa"
)

type intrinsic func(i *Interp, caller *frame, fn *ssa.Function, args []value) value

var intrinsics = map[string]intrinsic{}

const zz = "github.com/go-task/task/v3/internal/zzsym."

func cstr(v value) string {
	t := v.(*Term)
	if !t.Const {
		fault("expected concrete string")
	}
	return t.S
}

var errType types.Type // set in main: type of errors.New result placeholder

func mkError(msg *Term) value { return iface{t: errType, v: structure{msg}} }

func init() {
	nop := func(i *Interp, caller *frame, fn *ssa.Function, args []value) value { return nil }
	base := map[string]intrinsic{
		"(*sync.RWMutex).Lock":    nop,
		"(*sync.RWMutex).Unlock":  nop,
		"(*sync.RWMutex).RLock":   nop,
		"(*sync.RWMutex).RUnlock": nop,
		"strings.HasPrefix": func(i *Interp, _ *frame, _ *ssa.Function, a []value) value {
			return StrPrefixOf(a[1].(*Term), a[0].(*Term))
		},
		"strings.HasSuffix": func(i *Interp, _ *frame, _ *ssa.Function, a []value) value {
			return StrSuffixOf(a[1].(*Term), a[0].(*Term))
		},
		"strings.Contains": func(i *Interp, _ *frame, _ *ssa.Function, a []value) value {
			return StrContains(a[0].(*Term), a[1].(*Term))
		},
		"strings.TrimPrefix": func(i *Interp, _ *frame, _ *ssa.Function, a []value) value {
			s, p := a[0].(*Term), a[1].(*Term)
			if s.Const && p.Const {
				return TStr(strings.TrimPrefix(s.S, p.S))
			}
			rest := app(SStr, 0, "str.substr", s, app(SBV, 0, "str.len", p), app(SBV, 0, "str.len", s))
			return Ite(StrPrefixOf(p, s), rest, s)
		},
		"path/filepath.IsAbs": func(i *Interp, _ *frame, _ *ssa.Function, a []value) value {
			return StrPrefixOf(TStr("/"), a[0].(*Term))
		},
		"path/filepath.Join": func(i *Interp, _ *frame, _ *ssa.Function, a []value) value {
			parts := a[0].([]value)
			r := TStr("")
			for k, p := range parts {
				if k > 0 {
					r = StrConcat(r, TStr("/"))
				}
				r = StrConcat(r, p.(*Term))
			}
			return r
		},
		"fmt.Sprintf": func(i *Interp, _ *frame, _ *ssa.Function, a []value) value {
			return i.sprintf(cstr(a[0]), a[1].([]value))
		},
		"fmt.Errorf": func(i *Interp, _ *frame, _ *ssa.Function, a []value) value {
			return mkError(i.sprintf(cstr(a[0]), a[1].([]value)))
		},
		"errors.New": func(i *Interp, _ *frame, _ *ssa.Function, a []value) value {
			return mkError(a[0].(*Term))
		},
		"errors.As": func(i *Interp, _ *frame, _ *ssa.Function, a []value) value {
			err := a[0].(iface)
			if err.t == nil {
				return TBool(false)
			}
			fault("errors.As on non-nil error not supported in spike")
			return nil
		},
		"(*gopkg.in/yaml.v3.Node).Decode": func(i *Interp, _ *frame, _ *ssa.Function, a []value) value {
			if i.ex.choose(2, "stub") == 0 {
				return iface{}
			}
			return mkError(TStr("yaml decode error"))
		},
		"(*gopkg.in/yaml.v3.Node).ShortTag": func(i *Interp, _ *frame, _ *ssa.Function, a []value) value {
			return TStr("!!tag")
		},
	}
	for k, v := range base {
		intrinsics[k] = v
	}
}

func (i *Interp) sprintf(format string, args []value) *Term {
	r := TStr("")
	ai := 0
	for k := 0; k < len(format); k++ {
		c := format[k]
		if c != '%' {
			r = StrConcat(r, TStr(string(c)))
			continue
		}
		k++
		if k >= len(format) {
			break
		}
		switch format[k] {
		case '%':
			r = StrConcat(r, TStr("%"))
		case 's', 'v', 'q', 'd':
			if ai >= len(args) {
				r = StrConcat(r, TStr("%!(MISSING)"))
				continue
			}
			arg := args[ai].(iface)
			ai++
			var piece *Term
			switch v := arg.v.(type) {
			case *Term:
				switch v.Sort {
				case SStr:
					piece = v
				case SBV:
					if v.Const {
						piece = TStr(fmt.Sprint(v.signed()))
					} else {
						piece = app(SStr, 0, "str.from_int", app(SBV, 0, "bv2nat", v))
					}
				case SBool:
					piece = Ite(v, TStr("true"), TStr("false"))
				}
			default:
				piece = TStr(fmt.Sprintf("<%T>", v))
			}
			if format[k] == 'q' {
				piece = StrConcat(StrConcat(TStr(`"`), piece), TStr(`"`))
			}
			r = StrConcat(r, piece)
		default:
			fault("sprintf verb %%%c", format[k])
		}
	}
	return r
}

func (i *Interp) branchAssume(c *Term) bool {
	if c.Const {
		return c.B
	}
	r := i.solver.CheckFocus(i.pc, c)
	if r == "unsat" {
		return false
	}
	i.pc = append(i.pc, c)
	return true
}

func (i *Interp) assert(c *Term, label string) {
	i.reached["assert:"+label]++
	if c.Const && c.B {
		return
	}
	r := i.solver.CheckFocus(i.pc, Not(c))
	var model map[string]string
	if r == "sat" {
		_, model = i.solver.CheckAll(append(append([]*Term{}, i.pc...), Not(c)))
	}
	switch r {
	case "sat":
		i.violations = append(i.violations, Violation{Label: label, Model: model, Kind: "assert"})
		// continue on the side where the assertion holds
		if !i.branchAssume(c) {
			panic(pathEnd{"assert always false"})
		}
	case "unsat":
	default:
		i.violations = append(i.violations, Violation{Label: label, Kind: "unknown"})
	}
}

func init() {
	ident := func(k int) intrinsic {
		return func(i *Interp, _ *frame, _ *ssa.Function, a []value) value { return a[k] }
	}
	tp := "github.com/go-task/task/v3/internal/templater."
	more := map[string]intrinsic{
		tp + "Replace":             ident(0),
		tp + "ReplaceWithExtra":    ident(0),
		tp + "ReplaceVar":          ident(0),
		tp + "ReplaceVarWithExtra": ident(0),
		tp + "ReplaceVars":         ident(0),
		tp + "ReplaceGlobs":        ident(0),
		"(*github.com/Masterminds/semver/v3.Version).Equal": func(i *Interp, _ *frame, _ *ssa.Function, a []value) value {
			return TBool(true)
		},
		"github.com/go-task/task/v3/internal/version.GetVersion": func(i *Interp, _ *frame, _ *ssa.Function, a []value) value {
			return TStr("v0")
		},
		"path/filepath.ToSlash": ident(0),
		"path/filepath.Dir": func(i *Interp, _ *frame, _ *ssa.Function, a []value) value {
			return StrConcat(TStr("dir:"), a[0].(*Term))
		},
		"strings.SplitN": func(i *Interp, _ *frame, _ *ssa.Function, a []value) value {
			s, sep, n := a[0].(*Term), a[1].(*Term), a[2].(*Term)
			if s.Const && sep.Const && n.Const {
				parts := strings.SplitN(s.S, sep.S, int(n.signed()))
				out := make([]value, len(parts))
				for k := range parts {
					out[k] = TStr(parts[k])
				}
				return out
			}
			fault("symbolic SplitN")
			return nil
		},
	}
	for k, v := range more {
		intrinsics[k] = v
	}
}

func trimSpaceTerm(t *Term) *Term {
	if t.Const {
		return TStr(strings.TrimSpace(t.S))
	}
	if t.Op == "str.++" && t.Args[1].Const && strings.TrimSpace(t.Args[1].S) == "" {
		return trimSpaceTerm(t.Args[0])
	}
	return t // spike: symbolic strings are whitespace-free by alphabet
}

func init() {
	intrinsics["strings.TrimSpace"] = func(i *Interp, _ *frame, _ *ssa.Function, a []value) value {
		return trimSpaceTerm(a[0].(*Term))
	}
}
