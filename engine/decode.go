package main

import (
	"fmt"
	"go/types"
	"strings"

	"golang.org/x/tools/go/ssa"
)

// The (*yaml.Node).Decode stub: yaml.v3's decoder (reflection over a byte-level
// parser) is not encoded. Decode either fails or fills the target with an
// ARBITRARY value of its static type, with bounded structure:
//   - basic fields are fresh symbolic leaves (strings <= 2 bytes over "ab*");
//   - of the pointer/slice/map/interface fields of the top-level struct one
//     "focus" field at a time gets both nil and non-nil shapes (one more run has
//     them all nil, one all non-nil); nested levels are limited by depth;
//   - a type with its own UnmarshalYAML in go-task is produced by running that
//     real method on a harness-generated node (function zzNode in the harness).
// A shape the real decoder cannot produce only yields counterexamples that the
// native replay (real yaml.Unmarshal) does not confirm.

func hasStructure(t types.Type) bool {
	switch t.Underlying().(type) {
	case *types.Pointer, *types.Slice, *types.Map, *types.Interface:
		return true
	}
	return false
}

func (i *Interp) unmarshalerFor(T types.Type) *ssa.Function {
	named, ok := T.(*types.Named)
	if !ok || named.Obj().Pkg() == nil || !strings.HasPrefix(named.Obj().Pkg().Path(), modulePath) {
		return nil
	}
	return i.method(types.NewPointer(T), "UnmarshalYAML")
}

func (i *Interp) arbitrary(caller *frame, T types.Type, depth int, path string, mode int) value {
	// mode: 0 = structure fields nil, 1 = non-nil where depth allows, 2 = fork
	if f := i.unmarshalerFor(T); f != nil {
		if depth <= 0 || mode == 0 {
			return zero(T)
		}
		gen := i.ld.findFunc(i.hpkg, "zzNode")
		if gen == nil {
			fault("Decode stub: harness package %s has no zzNode generator", i.hpkg)
		}
		nd := -1 // kind and value symbolic, no children
		if v, ok := i.params["nested_node_depth"]; ok {
			nd = v
		}
		if mode == 1 {
			nd = -9 // no forks: a minimal scalar node with a symbolic value
			i.quiet++
			defer func() { i.quiet-- }()
		}
		node := i.callSSA(caller, gen, []value{TStr(path), TBV(64, uint64(int64(nd)))}, nil)
		p := new(value)
		*p = zero(T)
		err := i.callSSA(caller, f, []value{p, node}, nil)
		if e, ok := err.(iface); ok && e.t != nil {
			panic(pathEnd{"nested decode error"})
		}
		return *p
	}
	switch u := T.Underlying().(type) {
	case *types.Basic:
		switch {
		case u.Info()&types.IsBoolean != 0:
			return i.fresh("dec."+path, SBool, 0)
		case u.Info()&types.IsString != 0:
			t := i.fresh("dec."+path, SStr, 0)
			i.pc = append(i.pc, Raw(fmt.Sprintf("(<= (str.len %s) 2)", t.String()), t))
			i.pc = append(i.pc, Raw("(str.in_re "+t.String()+" (re.* "+alphabetRegex("ab*")+"))", t))
			return t
		case u.Info()&types.IsInteger != 0:
			w, _, _ := bvWidth(u)
			return i.fresh("dec."+path, SBV, w)
		}
		return zero(T)
	case *types.Struct:
		s := make(structure, u.NumFields())
		// focus choice among structured fields
		var structured []int
		for k := 0; k < u.NumFields(); k++ {
			if hasStructure(u.Field(k).Type()) {
				structured = append(structured, k)
			}
		}
		focus := -1
		fmode := mode
		if mode == 2 && len(structured) > 0 {
			c := i.ex.choose(len(structured)+2, "decode-shape")
			switch {
			case c == 0:
				fmode = 0
			case c == 1:
				fmode = 1
			default:
				fmode = 0
				focus = structured[c-2]
			}
		}
		for k := 0; k < u.NumFields(); k++ {
			f := u.Field(k)
			m := fmode
			if k == focus {
				m = 2
			}
			s[k] = i.arbitrary(caller, f.Type(), depth, path+"."+f.Name(), m)
		}
		return s
	case *types.Pointer:
		nonNil := mode == 1
		if mode == 2 {
			nonNil = i.ex.choose(2, "decode-shape") == 1
		}
		if !nonNil || depth <= 0 {
			return (*value)(nil)
		}
		p := new(value)
		*p = i.arbitrary(caller, u.Elem(), depth-1, path, 1)
		return p
	case *types.Slice:
		n := 0
		if mode == 1 {
			n = 1
		}
		if mode == 2 {
			n = i.ex.choose(3, "decode-shape")
		}
		if n == 0 || depth <= 0 {
			return []value(nil)
		}
		out := make([]value, n)
		for k := range out {
			out[k] = i.arbitrary(caller, u.Elem(), depth-1, fmt.Sprintf("%s[%d]", path, k), 1)
		}
		return out
	case *types.Map:
		if mode == 0 || depth <= 0 {
			return (*mapV)(nil)
		}
		return &mapV{}
	case *types.Interface:
		c := 0
		if mode == 1 {
			c = 1
		}
		if mode == 2 {
			c = i.ex.choose(3, "decode-shape")
		}
		switch c {
		case 1:
			return iface{t: types.Typ[types.String], v: i.arbitrary(caller, types.Typ[types.String], 0, path, 0)}
		case 2:
			return iface{t: types.NewSlice(types.NewInterfaceType(nil, nil)), v: []value{}}
		}
		return iface{}
	case *types.Array:
		a := make(array, u.Len())
		for k := range a {
			a[k] = i.arbitrary(caller, u.Elem(), depth, fmt.Sprintf("%s[%d]", path, k), mode)
		}
		return a
	}
	return zero(T)
}

func init() {
	intrinsics["(*gopkg.in/yaml.v3.Node).Decode"] = func(i *Interp, caller *frame, _ *ssa.Function, a []value) value {
		if i.quiet == 0 && i.ex.choose(2, "decode") == 1 {
			return mkError(TStr("yaml: unmarshal errors"))
		}
		tgt, ok := a[1].(iface)
		if !ok || tgt.t == nil {
			return mkError(TStr("yaml: nil target"))
		}
		pt, ok := tgt.t.(*types.Pointer)
		if !ok {
			return mkError(TStr("yaml: non-pointer target"))
		}
		ptr := tgt.v.(*value)
		if ptr == nil {
			return mkError(TStr("yaml: nil pointer target"))
		}
		i.ndecode++
		mode := 2
		if i.quiet > 0 {
			mode = 0
		}
		*ptr = i.arbitrary(caller, pt.Elem(), 2, fmt.Sprintf("d%d", i.ndecode), mode)
		return iface{}
	}
	intrinsics["(*gopkg.in/yaml.v3.Node).ShortTag"] = func(i *Interp, _ *frame, _ *ssa.Function, a []value) value {
		return TStr("!!tag")
	}
}
