package main

import (
	"encoding/json"
	"fmt"
	"os"
	"path/filepath"
	"regexp"
	"runtime"
	"sort"
	"strconv"
	"strings"
	"sync"
	"time"

	"golang.org/x/tools/go/ssa"
)

// HarnessSpec registers one harness function for a property.
type HarnessSpec struct {
	Prop       string
	Pkg        string         // import path suffix below the module root ("" = root package)
	Func       string         // harness function name (ZZ_...)
	Tag        string         // distinguishes several registrations of one function (e.g. "shape=2")
	Tiers      string         // "quick", "thorough" or "" (both)
	Unwind     int            // loop unwinding bound (unwinding assertion)
	MaxPaths   int            // path budget; hitting it makes the run incomplete
	MaxSteps   int64          // SSA instruction budget per path
	POR        bool           // sleep-set partial-order reduction
	Replay     string         // "native": run the same harness natively with the model; "" none
	ReplayPkg  string         // native replay runs this package's ...
	ReplayFunc string         // ... function instead (reads the same model variables)
	Params     map[string]int // harness parameters (zz.Param)
	TParams    map[string]int // overrides for the thorough tier
	Twin       bool           // run the vacuity twin (zz.Twin() makes final assertions false)
	MustReach  []string       // zz.Reach labels that some path must reach (existential obligations); unreached = violation "must-reach/<label>"
	Note       string
}

const modulePath = "github.com/go-task/task/v3"

func (s HarnessSpec) pkgPath() string {
	if s.Pkg == "" {
		return modulePath
	}
	return modulePath + "/" + s.Pkg
}

func (s HarnessSpec) name() string {
	if s.Tag != "" {
		return s.Func + "[" + s.Tag + "]"
	}
	return s.Func
}

func (s HarnessSpec) pattern() string {
	if s.Pkg == "" {
		return "."
	}
	return "./" + s.Pkg
}

type Violation struct {
	Harness string            `json:"harness"`
	Label   string            `json:"label"`
	Kind    string            `json:"kind"` // assert | panic | deadlock | unknown | race
	Model   map[string]string `json:"model,omitempty"`
	Vector  []int             `json:"decisions,omitempty"`
	Trace   []string          `json:"trace,omitempty"`
	Where   string            `json:"where,omitempty"`
}

func (v Violation) sig() string { return v.Harness + "/" + v.Kind + ":" + v.Label }

type PathSample struct {
	Decisions string            `json:"decisions"`
	End       string            `json:"end"`
	Model     map[string]string `json:"model,omitempty"`
	Trace     []string          `json:"trace,omitempty"`
	Notes     []string          `json:"notes,omitempty"`
}

type HarnessResult struct {
	Spec         HarnessSpec
	Paths        int
	Nontrivial   int
	Ends         map[string]int
	Instrs       int64
	Funcs        map[string]int
	Stubs        map[string]int
	Reached      map[string]int
	Forks        map[string]int
	Violations   map[string][]Violation
	Samples      []PathSample
	Queries      int
	Sat          int
	Unsat        int
	Unknown      int
	SolverTime   time.Duration
	Wall         time.Duration
	States       int64
	Transitions  int64
	Incomplete   string
	Faults       []string
	UnwindFail   map[string]int
	CrossChecked int
	mu           sync.Mutex
}

func runHarness(ld *Loaded, spec HarnessSpec, tier string, workers int, twin bool) *HarnessResult {
	t0 := time.Now()
	res := &HarnessResult{Spec: spec, Ends: map[string]int{}, Funcs: map[string]int{}, Stubs: map[string]int{},
		Reached: map[string]int{}, Forks: map[string]int{}, Violations: map[string][]Violation{}, UnwindFail: map[string]int{}}
	h := ld.findFunc(spec.pkgPath(), spec.Func)
	if h == nil {
		res.Faults = append(res.Faults, "harness function not found: "+spec.pkgPath()+"."+spec.Func)
		return res
	}
	params := map[string]int{}
	for k, v := range spec.Params {
		params[k] = v
	}
	if tier == "thorough" {
		for k, v := range spec.TParams {
			params[k] = v
		}
		params["__cross"] = 1
	}
	for k, v := range cliParams {
		params[k] = v
	}
	if twin {
		params["__twin"] = 1
	}
	unwind := spec.Unwind
	if unwind == 0 {
		unwind = 64
	}
	if v, ok := params["__unwind"]; ok {
		unwind = v
	}
	maxPaths := spec.MaxPaths
	if maxPaths == 0 {
		maxPaths = 200000
	}
	if v, ok := params["__maxpaths"]; ok {
		maxPaths = v
	}
	maxSteps := spec.MaxSteps
	if maxSteps == 0 {
		maxSteps = 20_000_000
	}
	fr := newFrontier()
	var wg sync.WaitGroup
	if workers < 1 {
		workers = 1
	}
	for w := 0; w < workers; w++ {
		wg.Add(1)
		go func() {
			defer wg.Done()
			solver := NewSolver()
			defer solver.Close()
			for {
				prefix, ok := fr.pop()
				if !ok {
					break
				}
				ex := &Explorer{prefix: prefix}
				funcs, stubs, reached := map[string]int{}, map[string]int{}, map[string]int{}
				i := &Interp{ld: ld, prog: ld.prog, globals: map[*ssa.Global]*value{}, solver: solver, ex: ex,
					inited: map[*ssa.Package]bool{}, funcs: funcs, stubs: stubs, unwind: unwind,
					maxSteps: maxSteps, reached: reached, symvals: map[string]*Term{}, names: map[string]int{}, params: params, hpkg: spec.pkgPath()}
				i.initConc(spec.POR)
				i.cs.coarse = params["__coarse"] == 1
				i.raceInit(params["__race"] == 1)
				end := runPath(i, h)
				i.killAll()
				res.mu.Lock()
				res.Paths++
				if len(ex.trail) > 0 {
					res.Nontrivial++
				}
				res.Ends[endClass(end)]++
				if strings.HasPrefix(end, "unwind:") {
					res.UnwindFail[end]++
				}
				if strings.HasPrefix(end, "FAULT") {
					if len(res.Faults) < 5 {
						res.Faults = append(res.Faults, end+" [decisions "+vecString(ex.vector())+"]")
					}
				}
				res.CrossChecked += i.crossChecked
				res.Instrs += i.instrs
				for k, n := range i.cs.kinds {
					res.Forks["yield:"+k] += n
				}
				res.Transitions += int64(i.cs.transitions)
				for k, n := range funcs {
					res.Funcs[k] += n
				}
				for k, n := range stubs {
					res.Stubs[k] += n
				}
				for k, n := range reached {
					res.Reached[k] += n
				}
				for k, n := range ex.kinds {
					res.Forks[k] += n
				}
				twinHit := false
				for _, v := range i.violations {
					if twin && v.Kind == "assert" && v.Label == "twin" {
						twinHit = true // the twin's job is done: its final assertion is reachable and violated
					}
					v.Harness = spec.name()
					v.Vector = ex.vector()
					v.Trace = i.traceStrings()
					if len(res.Violations[v.sig()]) < 4 {
						res.Violations[v.sig()] = append(res.Violations[v.sig()], v)
					}
				}
				if len(res.Samples) < 3 || (len(res.Samples) < 6 && len(ex.trail) > 3*len(res.Samples)) {
					s := PathSample{Decisions: vecString(ex.vector()), End: end, Trace: i.traceStrings(), Notes: i.notes}
					if len(i.pc) > 0 && len(i.pc) < 60 {
						if r, m := solver.Check(i.pc, true); r == "sat" {
							s.Model = m
						}
					}
					res.Samples = append(res.Samples, s)
				}
				over := res.Paths >= maxPaths
				res.mu.Unlock()
				fr.done(len(prefix), ex.trail)
				if twinHit {
					fr.stop()
				}
				if over {
					if fr.pending() > 0 {
						res.mu.Lock()
						res.Incomplete = fmt.Sprintf("path budget %d reached with %d prefixes pending", maxPaths, fr.pending())
						res.mu.Unlock()
					}
					fr.stop()
				}
			}
			res.mu.Lock()
			res.Queries += solver.Queries
			res.Sat += solver.Sat
			res.Unsat += solver.Unsat
			res.Unknown += solver.Unknown
			res.SolverTime += solver.Time
			res.mu.Unlock()
		}()
	}
	wg.Wait()
	res.Wall = time.Since(t0)
	return res
}

func endClass(end string) string {
	if k := strings.Index(end, ":"); k > 0 {
		return end[:k]
	}
	return end
}

func trimModel(m map[string]string, n int) map[string]string {
	if len(m) <= n {
		return m
	}
	out := map[string]string{}
	for _, k := range sortedKeys(m)[:n] {
		out[k] = m[k]
	}
	return out
}

func (i *Interp) traceStrings() []string {
	var out []string
	for _, e := range i.events {
		s := e.(structure)
		out = append(out, fmt.Sprintf("g%s %s %s %s", termShort(s[3]), termShort(s[0]), termShort(s[1]), termShort(s[2])))
		if len(out) >= 200 {
			break
		}
	}
	return out
}

func termShort(v value) string {
	t, ok := v.(*Term)
	if !ok {
		return fmt.Sprint(v)
	}
	if t.Const {
		switch t.Sort {
		case SStr:
			return t.S
		case SBV:
			return fmt.Sprint(t.signed())
		case SBool:
			return fmt.Sprint(t.B)
		}
	}
	s := t.String()
	if len(s) > 40 {
		s = s[:40] + "…"
	}
	return s
}

func runPath(i *Interp, h *ssa.Function) (end string) {
	defer func() {
		r := recover()
		switch r := r.(type) {
		case nil:
		case pathEnd:
			end = r.why
		case targetPanic:
			msg := normalizePanic(panicMessage(r.v))
			res, model := i.solver.CheckAll(i.pc)
			if res != "unsat" {
				if k := strings.Index(r.where, " <- "); k > 0 {
					msg += " @ " + r.where[:k]
				} else if r.where != "" {
					msg += " @ " + r.where
				}
				i.violations = append(i.violations, Violation{Label: msg, Kind: "panic", Model: model, Where: r.where})
			}
			end = "panic"
		case engineFault:
			end = "FAULT: " + r.msg
		default:
			end = fmt.Sprintf("FAULT: engine panic: %v", r)
		}
	}()
	i.callSSA(nil, h, nil, nil)
	return "ok"
}

var panicNumbers = regexp.MustCompile(`\[[-0-9:]+\]|\b[0-9]+\b|\(field [^)]*\)`)

// normalizePanic removes the concrete numbers of a runtime panic message so that
// one defect gives one signature.
func normalizePanic(msg string) string {
	return strings.TrimSpace(panicNumbers.ReplaceAllString(msg, "N"))
}

func panicMessage(v value) string {
	msg := fmt.Sprint(v)
	if itf, ok := v.(iface); ok {
		if t, ok := itf.v.(*Term); ok {
			if t.Const && t.Sort == SStr {
				return t.S
			}
			return t.String()
		}
		if pv, ok := itf.v.(*value); ok && pv != nil {
			if st, ok := (*pv).(structure); ok && len(st) > 0 {
				if t, ok := st[0].(*Term); ok && t.Const && t.Sort == SStr {
					return t.S
				}
			}
		}
		if st, ok := itf.v.(structure); ok && len(st) > 0 {
			if t, ok := st[0].(*Term); ok && t.Const && t.Sort == SStr {
				return t.S
			}
		}
		if itf.t != nil {
			return "panic value of type " + itf.t.String()
		}
	}
	return msg
}

// ---------------------------------------------------------------------------------------
// known findings

type KnownFinding struct {
	Property    string `json:"property"`
	Signature   string `json:"signature,omitempty"`
	Status      string `json:"status"` // "known" or "fixed"
	Commit      string `json:"commit,omitempty"`
	Description string `json:"description"`
}

func loadKnown() []KnownFinding {
	var k []KnownFinding
	b, err := os.ReadFile(filepath.Join(verifDir, "known_findings.json"))
	if err != nil {
		return nil
	}
	if err := json.Unmarshal(b, &k); err != nil {
		fmt.Fprintln(os.Stderr, "known_findings.json:", err)
		os.Exit(2)
	}
	return k
}

// ---------------------------------------------------------------------------------------
// check command

var cliParams map[string]int

type checkOpts struct {
	prop     string
	tier     string
	filter   string
	workers  int
	noReplay bool
	verbose  bool
	seed     int
	// noEvidence: a partial run (--harness, --param, --no-replay) does not describe what the
	// registered command covers and leaves the evidence file alone
	noEvidence bool
}

func cmdCheck(o checkOpts) int {
	t0 := time.Now()
	curTier = o.tier
	specs := specsFor(o.prop, o.tier, o.filter)
	if len(specs) == 0 {
		fmt.Fprintf(os.Stderr, "no harness registered for %s tier %s\n", o.prop, o.tier)
		return 2
	}
	pats := map[string]bool{}
	for _, s := range specs {
		pats[s.pattern()] = true
	}
	ld, err := load(sortedKeys(pats))
	if err != nil {
		fmt.Fprintln(os.Stderr, "gosmt: cannot build the encoding from /repo:", err)
		fmt.Println("BROKEN property=" + o.prop + " reason=load")
		return 2
	}
	fmt.Printf("gosmt: loaded %v and built SSA in %v\n", sortedKeys(pats), ld.loadTime.Round(time.Millisecond))
	known := loadKnown()
	var results []*HarnessResult
	exit := 0
	broken := []string{}
	violations := 0
	unconfirmed := 0
	knownHits := map[string]bool{}
	var confirmed []Violation
	validated := 0
	var mismatches []string
	for _, spec := range specs {
		res := runHarness(ld, spec, o.tier, o.workers, false)
		results = append(results, res)
		printResult(res, o.verbose)
		if len(res.Faults) > 0 {
			broken = append(broken, spec.Func+": "+res.Faults[0])
		}
		if res.Incomplete != "" {
			broken = append(broken, spec.Func+": "+res.Incomplete)
		}
		for k, n := range res.UnwindFail {
			broken = append(broken, fmt.Sprintf("%s: unwinding assertion failed (%s ×%d): bound too small", spec.Func, k, n))
		}
		if res.Reached["end"] == 0 && res.Ends["ok"] == 0 {
			broken = append(broken, spec.Func+": vacuous (no path reached the end of the harness)")
		}
		// vacuity twin
		if spec.Twin {
			tw := runHarness(ld, spec, o.tier, o.workers, true)
			nv := 0
			for _, vs := range tw.Violations {
				if vs[0].Kind == "assert" {
					nv++
				}
			}
			if nv == 0 {
				broken = append(broken, spec.Func+": vacuity twin came back without a violation")
			} else {
				fmt.Printf("   vacuity twin: violated as expected (%d assertion sites)\n", nv)
			}
		}
		for _, l := range spec.MustReach {
			if res.Reached[l] == 0 && len(res.Faults) == 0 && res.Incomplete == "" {
				v := Violation{Harness: spec.name(), Kind: "assert", Label: "must-reach/" + l, Model: map[string]string{}}
				res.Violations[v.sig()] = []Violation{v}
			}
		}
		// translator validation: re-run sampled non-violating paths natively
		if spec.Replay != "" && !o.noReplay {
			want := 1
			if o.tier == "thorough" {
				want = 3
			}
			done := 0
			for n, smp := range res.Samples {
				if done >= want {
					break
				}
				if smp.End != "ok" || smp.Model == nil {
					continue
				}
				// traces with a killed or failing probe depend on the real scheduler's timing
				// (who is cancelled before it starts): only failure-free traces are compared
				hasK := false
				for _, l := range smp.Trace {
					f := strings.Fields(l)
					if strings.Contains(l, " K ") || (len(f) >= 4 && f[1] == "F" && f[3] != "0") {
						hasK = true
					}
				}
				if hasK {
					continue
				}
				ok, why := validateSample(spec, smp, n)
				done++
				if ok {
					validated++
				} else {
					mismatches = append(mismatches, spec.name()+": "+why)
					fmt.Printf("   sample path not validated natively: %s\n", why)
				}
			}
		}
		sigs := sortedKeys(res.Violations)
		for _, sig := range sigs {
			vs := res.Violations[sig]
			v := vs[0]
			if v.Kind == "unknown" {
				broken = append(broken, spec.Func+": solver answered unknown on assertion "+v.Label)
				continue
			}
			// replay before reporting
			ok := false
			var path string
			if o.noReplay || spec.Replay == "" {
				ok = spec.Replay == "" && !o.noReplay
				path = writeReplayFile(spec, v, "")
			} else {
				for _, cand := range vs {
					var out string
					ok, out, path = replayNative(ld, spec, cand)
					if ok {
						v = cand
						validated++
						break
					}
					if o.verbose {
						fmt.Println("   replay did not confirm:", firstLines(out, 12))
					}
				}
			}
			if !ok {
				unconfirmed++
				fmt.Printf("   UNCONFIRMED counterexample %s (replay did not reproduce it; not reported)\n", sig)
				continue
			}
			if kf := matchKnown(known, o.prop, sig); kf != nil {
				if !knownHits[kf.Signature] {
					knownHits[kf.Signature] = true
					fmt.Printf("KNOWN-FINDING: property=%s %s — %s\n", o.prop, kf.Signature, kf.Description)
				}
				continue
			}
			violations++
			confirmed = append(confirmed, v)
			fmt.Printf("VIOLATION property=%s replay=%s\n", o.prop, path)
			fmt.Printf("   %s model=%v\n", sig, v.Model)
			exit = 1
		}
	}
	wall := time.Since(t0)
	if os.Getenv("GOSMT_REPO") == "" && !o.noEvidence { // evidence describes /repo itself, from complete runs
		writeEvidence(o, ld, results, violations, unconfirmed, validated, broken, wall, confirmed, mismatches)
	}
	if len(broken) > 0 {
		for _, b := range broken {
			fmt.Println("BROKEN property=" + o.prop + " " + b)
		}
		if exit == 0 {
			exit = 2
		}
	}
	fmt.Printf("gosmt: %s tier=%s harnesses=%d violations=%d unconfirmed=%d wall=%v exit=%d\n", o.prop, o.tier, len(specs), violations, unconfirmed, wall.Round(time.Millisecond), exit)
	return exit
}

func firstLines(s string, n int) string {
	ls := strings.Split(s, "\n")
	if len(ls) > n {
		ls = ls[len(ls)-n:]
	}
	return strings.Join(ls, "\n      ")
}

func matchKnown(known []KnownFinding, prop, sig string) *KnownFinding {
	for k := range known {
		kf := &known[k]
		if kf.Status == "known" && kf.Property == prop && kf.Signature != "" && strings.HasPrefix(sig, kf.Signature) {
			return kf
		}
	}
	return nil
}

func printResult(r *HarnessResult, verbose bool) {
	fmt.Printf("== %s: paths=%d ends=%v instrs=%d funcs=%d stubs=%d forks=%v queries=%d (sat %d unsat %d unknown %d) solver=%v wall=%v\n",
		r.Spec.name(), r.Paths, r.Ends, r.Instrs, len(r.Funcs), len(r.Stubs), r.Forks, r.Queries, r.Sat, r.Unsat, r.Unknown,
		r.SolverTime.Round(time.Millisecond), r.Wall.Round(time.Millisecond))
	for _, sig := range sortedKeys(r.Violations) {
		v := r.Violations[sig][0]
		fmt.Printf("   counterexample %s model=%v where=%s\n", sig, v.Model, v.Where)
		if verbose && len(v.Trace) > 0 {
			fmt.Printf("      trace: %s\n", strings.Join(v.Trace, " | "))
		}
	}
	var rk []string
	for _, k := range sortedKeys(r.Reached) {
		rk = append(rk, fmt.Sprintf("%s×%d", k, r.Reached[k]))
	}
	if verbose {
		fmt.Printf("   reached: %s\n", strings.Join(rk, " "))
	}
	for _, f := range r.Faults {
		fmt.Printf("   ENGINE %s\n", f)
	}
}

// ---------------------------------------------------------------------------------------
// evidence

func writeEvidence(o checkOpts, ld *Loaded, results []*HarnessResult, violations, unconfirmed, validated int, broken []string, wall time.Duration, confirmed []Violation, mismatches []string) {
	level := propLevel(o.prop)
	paths, nontriv, queries, sat, unsat, unknown := 0, 0, 0, 0, 0, 0
	var states, transitions, instrs int64
	var solverTime time.Duration
	funcs := map[string]string{}
	stubs := map[string]int{}
	forks := map[string]int{}
	cross := 0
	for _, r := range results {
		cross += r.CrossChecked
	}
	var samples []any
	var harnesses []any
	bounds := map[string]any{}
	asserts := map[string]int{}
	for _, r := range results {
		paths += r.Paths
		nontriv += r.Nontrivial
		queries += r.Queries
		sat += r.Sat
		unsat += r.Unsat
		unknown += r.Unknown
		// distinct scheduling states: decision points first met beyond the replayed
		// prefix (counted once each) plus the terminal state of every path
		states += int64(r.Forks["sched"] + r.Forks["map-order"] + r.Paths)
		transitions += r.Transitions
		instrs += r.Instrs
		solverTime += r.SolverTime
		for k := range r.Funcs {
			if _, ok := funcs[k]; !ok {
				funcs[k] = ""
			}
		}
		for k, n := range r.Stubs {
			stubs[k] += n
		}
		for k, n := range r.Forks {
			forks[k] += n
		}
		for k, n := range r.Reached {
			if strings.HasPrefix(k, "assert:") {
				asserts[r.Spec.name()+"/"+strings.TrimPrefix(k, "assert:")] += n
			}
		}
		for _, s := range r.Samples {
			if len(samples) < 8 {
				samples = append(samples, map[string]any{"harness": r.Spec.name(), "decisions": s.Decisions, "end": s.End, "model": trimModel(s.Model, 14), "trace": s.Trace, "notes": s.Notes})
			}
		}
		p := map[string]int{}
		for k, v := range r.Spec.Params {
			p[k] = v
		}
		if o.tier == "thorough" {
			for k, v := range r.Spec.TParams {
				p[k] = v
			}
		}
		unw := r.Spec.Unwind
		if unw == 0 {
			unw = 64
		}
		bounds[r.Spec.name()] = map[string]any{"unwind": unw, "params": p, "por_sleep_sets": r.Spec.POR, "note": r.Spec.Note}
		harnesses = append(harnesses, map[string]any{"harness": r.Spec.name(), "paths": r.Paths, "ends": r.Ends, "ssa_instructions": r.Instrs,
			"queries": r.Queries, "solver_time_s": r.SolverTime.Seconds(), "wall_s": r.Wall.Seconds(), "incomplete": r.Incomplete,
			"counterexamples": sortedKeys(r.Violations)})
	}
	// sha of source files of encoded functions
	var fenc []string
	fileSet := map[string]string{}
	for _, p := range ld.prog.AllPackages() {
		_ = p
	}
	for k := range funcs {
		fenc = append(fenc, k)
	}
	sort.Strings(fenc)
	for _, r := range results {
		for k := range r.Funcs {
			_ = k
		}
	}
	for _, fn := range ld.encodedFunctions(funcs) {
		if f, sha := ld.sourceSHA(fn); f != "" {
			fileSet[strings.TrimPrefix(f, repoDir+"/")] = sha
		}
	}
	repoFuncs := []string{}
	for _, k := range fenc {
		if strings.Contains(k, "go-task/task") && !strings.Contains(k, "ZZ_") && !strings.Contains(k, ".zz") {
			repoFuncs = append(repoFuncs, strings.ReplaceAll(k, modulePath, "task"))
		}
	}
	cov := map[string]any{
		"evaluations":                  paths,
		"distinct_nontrivial":          nontriv,
		"rule":                         "every path of the bounded symbolic execution tree of each harness is explored exactly once (DFS over decision vectors: solver-decided branches, size/choice forks, scheduler picks); a path is non-trivial when it contains at least one decision with two or more solver-feasible alternatives; paths are distinct by decision vector",
		"samples":                      samples,
		"explanation":                  "bounded symbolic execution of the real go-task functions (go/ssa of /repo's working tree, regenerated this run) with an SMT solver (z3) deciding every branch feasibility and every assertion over all values of the symbolic inputs within the stated bounds; counterexamples are replayed against the real build before being reported",
		"exhaustive":                   len(broken) == 0,
		"functions_encoded":            repoFuncs,
		"functions_encoded_n":          len(fenc),
		"source_files_sha256":          fileSet,
		"stubs":                        stubs,
		"bounds":                       bounds,
		"forks_by_kind":                forks,
		"assertion_sites":              asserts,
		"queries":                      map[string]int{"total": queries, "sat": sat, "unsat": unsat, "unknown": unknown},
		"solver":                       solverVersion(),
		"solver_time_s":                solverTime.Seconds(),
		"ssa_instructions":             instrs,
		"harnesses":                    harnesses,
		"unconfirmed_counterexamples":  unconfirmed,
		"load_and_ssa_build_s":         ld.loadTime.Seconds(),
		"broken":                       broken,
		"paths_validated_natively":     validated,
		"native_validation_mismatches": mismatches,
	}
	if level == "model_checking" {
		if states < 1 {
			states = int64(paths)
		}
		if transitions < 1 {
			transitions = int64(paths)
		}
		cov["states"] = states
		cov["transitions"] = transitions
		cov["traces_validated_against_impl"] = validated
	}
	var cv []any
	for _, v := range confirmed {
		cv = append(cv, v)
	}
	if len(cv) > 0 {
		cov["confirmed_violations"] = cv
	}
	ev := map[string]any{
		"property_id": o.prop,
		"tier":        o.tier,
		"seed":        o.seed,
		"level":       level,
		"coverage":    cov,
		"assumptions": propAssumptions(o.prop),
		"wall_s":      wall.Seconds(),
		"violations":  violations,
	}
	b, _ := json.MarshalIndent(ev, "", " ")
	os.MkdirAll(filepath.Join(verifDir, "evidence"), 0o755)
	os.WriteFile(filepath.Join(verifDir, "evidence", o.prop+".json"), b, 0o644)
}

func (l *Loaded) encodedFunctions(names map[string]string) []*ssa.Function {
	var out []*ssa.Function
	seen := map[string]bool{}
	for _, p := range l.prog.AllPackages() {
		if !strings.Contains(p.Pkg.Path(), "go-task/task") {
			continue
		}
		for _, m := range p.Members {
			switch m := m.(type) {
			case *ssa.Function:
				if _, ok := names[m.String()]; ok && !seen[m.String()] {
					seen[m.String()] = true
					out = append(out, m)
				}
			case *ssa.Type:
				for _, t := range []interface{ String() string }{m.Type()} {
					_ = t
				}
				ms := l.prog.MethodSets.MethodSet(m.Type())
				for k := 0; k < ms.Len(); k++ {
					if f := l.prog.MethodValue(ms.At(k)); f != nil {
						if _, ok := names[f.String()]; ok && !seen[f.String()] {
							seen[f.String()] = true
							out = append(out, f)
						}
					}
				}
			}
		}
	}
	return out
}

var solverVer string

func solverVersion() string { return solverVer }

func writeReplayFile(spec HarnessSpec, v Violation, output string) string {
	dir := filepath.Join(verifDir, "replays")
	os.MkdirAll(dir, 0o755)
	name := fmt.Sprintf("%s_%s_%x.json", spec.Prop, spec.Func, hashString(v.sig()))
	path := filepath.Join(dir, name)
	b, _ := json.MarshalIndent(map[string]any{"property": spec.Prop, "harness": spec.Func, "tag": spec.Tag, "pkg": spec.Pkg, "violation": v, "params": nativeParams(spec), "replay_output": output}, "", " ")
	os.WriteFile(path, b, 0o644)
	return path
}

func hashString(s string) uint32 {
	var h uint32 = 2166136261
	for i := 0; i < len(s); i++ {
		h ^= uint32(s[i])
		h *= 16777619
	}
	return h
}

func main() {
	if len(os.Args) < 2 {
		fmt.Fprintln(os.Stderr, "usage: gosmt check <property> [--tier quick|thorough] [--harness substr] [-v] | gosmt replay <file> | gosmt list")
		os.Exit(2)
	}
	if d := os.Getenv("VERIF_DIR"); d != "" {
		verifDir = d
	}
	switch os.Args[1] {
	case "check":
		o := checkOpts{tier: "quick", workers: runtime.NumCPU()}
		if t := os.Getenv("VERIF_TIER"); t == "quick" || t == "thorough" {
			o.tier = t
		}
		if s := os.Getenv("VERIF_SEED"); s != "" {
			o.seed, _ = strconv.Atoi(s)
		}
		args := os.Args[2:]
		for k := 0; k < len(args); k++ {
			switch args[k] {
			case "--tier":
				k++
				o.tier = args[k]
			case "--harness":
				k++
				o.filter = args[k]
				o.noEvidence = true
			case "--workers":
				k++
				o.workers, _ = strconv.Atoi(args[k])
			case "--param":
				o.noEvidence = true
				k++
				kv := strings.SplitN(args[k], "=", 2)
				n, _ := strconv.Atoi(kv[1])
				if cliParams == nil {
					cliParams = map[string]int{}
				}
				cliParams[kv[0]] = n
			case "--no-replay":
				o.noReplay = true
				o.noEvidence = true
			case "-v":
				o.verbose = true
			default:
				o.prop = args[k]
			}
		}
		os.Exit(cmdCheck(o))
	case "replay":
		os.Exit(cmdReplay(os.Args[2]))
	case "list":
		for _, s := range allSpecs {
			fmt.Printf("%s %s.%s tiers=%q replay=%s\n", s.Prop, s.Pkg, s.Func, s.Tiers, s.Replay)
		}
	default:
		fmt.Fprintln(os.Stderr, "unknown command", os.Args[1])
		os.Exit(2)
	}
}
