package main

import (
	"go/types"
	"sync"

	"golang.org/x/tools/go/ssa"
)

// G is an interpreted goroutine run as a coroutine.
type G struct {
	id      int
	resume  chan struct{}
	done    bool
	enabled func() bool // for the pending visible operation; nil = always
	what    string
	obj     interface{} // synchronisation object of the pending operation (nil = conflicts with everything)
	read    bool        // the pending operation only reads obj (two reads commute)
	vc      vclock
	send    bool
}

type nativeFn struct {
	name string
	f    func(i *Interp, caller *frame, args []value) value
}

type ctxObj struct {
	parent   *ctxObj
	children []*ctxObj
	done     bool
	deadline bool // cancelled by its timer
	doneCh   *chanV
	cause    value
	key, val value // context.WithValue (key == nil: none)
}

type mutexState struct{ locked bool }
type rwState struct {
	writer  bool
	readers int
	// happens-before: a write lock orders after every earlier unlock (reader or writer), a
	// read lock only after earlier write unlocks: two readers are not ordered by the lock
	rd struct{} // identity of the readers' release clock (key &st.rd)
}

func (i *Interp) rw(p value) *rwState {
	ptr := p.(*value)
	if i.cs.rws == nil {
		i.cs.rws = map[*value]*rwState{}
	}
	st := i.cs.rws[ptr]
	if st == nil {
		st = &rwState{}
		i.cs.rws[ptr] = st
	}
	return st
}

type wgState struct{ n int64 }
type onceState struct{ running, done bool }

type concState struct {
	gs                  []*G
	cur                 *G
	abort               bool
	fatal               interface{}
	mutexes             map[*value]*mutexState
	rws                 map[*value]*rwState
	wg                  sync.WaitGroup
	wgs                 map[*value]*wgState
	onces               map[*value]*onceState
	switches            int
	states, transitions int
	sleep               map[int]pendingOp // gid -> its pending op, for sleep-set reduction
	kinds               map[string]int
	coarse              bool
	por                 bool
}

type abortPath struct{}

func (i *Interp) initConc(por bool) {
	g0 := &G{id: 0, resume: make(chan struct{}, 1)}
	i.cs = &concState{sleep: map[int]pendingOp{}, por: por, gs: []*G{g0}, cur: g0, mutexes: map[*value]*mutexState{}, wgs: map[*value]*wgState{}, onces: map[*value]*onceState{}}
}

// yield is called before a visible operation; it may switch goroutines.
func (i *Interp) yield(what string, enabled func() bool, obj ...interface{}) {
	i.yieldRW(what, enabled, false, obj...)
}

// yieldR announces a visible operation that only reads its object.
func (i *Interp) yieldR(what string, enabled func() bool, obj interface{}) {
	i.yieldRW(what, enabled, true, obj)
}

func (i *Interp) yieldRW(what string, enabled func() bool, read bool, obj ...interface{}) {
	cs := i.cs
	me := cs.cur
	me.enabled = enabled
	me.what = what
	me.obj = nil
	me.read = read
	me.send = what == "send"
	if len(obj) > 0 {
		me.obj = obj[0]
	}
	if cs.kinds == nil {
		cs.kinds = map[string]int{}
	}
	cs.kinds[what]++
	if cs.coarse && what != "emit" && what != "Yield" && (enabled == nil || enabled()) {
		// coarse scheduling: context switches only before observable events, at
		// operations that block, and at goroutine start
		me.enabled = nil
		return
	}
	i.schedule(me)
	me.enabled = nil
}

type pendingOp struct {
	obj  interface{}
	read bool
	send bool // channel send (as opposed to receive)
}

func ctxAncestorOrSelf(a, d *ctxObj) bool {
	for ; d != nil; d = d.parent {
		if d == a {
			return true
		}
	}
	return false
}

// independent: two pending visible operations commute from the current state.
func independent(a, b pendingOp) bool {
	if a.obj == nil || b.obj == nil {
		return false
	}
	if a.read && b.read {
		return true
	}
	ca, aok := a.obj.(*ctxObj)
	cb, bok := b.obj.(*ctxObj)
	if aok && bok {
		// cancel(c) writes c's subtree; Err/Done(d) reads d's state, which depends on
		// its ancestors' cancellation
		switch {
		case !a.read && !b.read:
			return !ctxAncestorOrSelf(ca, cb) && !ctxAncestorOrSelf(cb, ca)
		case !a.read:
			return !ctxAncestorOrSelf(ca, cb)
		default:
			return !ctxAncestorOrSelf(cb, ca)
		}
	}
	if a.obj != b.obj {
		return true
	}
	// same channel used as a counting semaphore (zero-size elements): two
	// operations commute when both stay enabled whichever goes first
	if ch, ok := a.obj.(*chanV); ok && ch.zeroSize && ch.cap > 0 && !ch.closed {
		n, c := len(ch.buf), ch.cap
		switch {
		case a.send && b.send:
			return n+2 <= c
		case !a.send && !b.send:
			return n >= 2
		default:
			return n >= 1 && n < c
		}
	}
	return false
}

// schedule picks the next goroutine to run; me is the caller (parked or exiting).
func (i *Interp) schedule(me *G) {
	cs := i.cs
	if cs.abort {
		if me.id == 0 {
			panic(cs.fatal)
		}
		panic(abortPath{})
	}
	cs.transitions++
	var en []*G
	alive := 0
	for _, g := range cs.gs {
		if g.done {
			continue
		}
		alive++
		if g.enabled == nil || g.enabled() {
			en = append(en, g)
		}
	}
	if len(en) == 0 {
		if alive == 0 {
			return
		}
		// deadlock
		_, model := i.solver.CheckAll(i.pc)
		i.violations = append(i.violations, Violation{Kind: "deadlock", Label: "all goroutines blocked: " + i.describeBlocked(), Model: model})
		i.abortWith(pathEnd{"deadlock"}, me)
		return
	}
	if cs.por {
		var cand []*G
		for _, g := range en {
			if o, asleep := cs.sleep[g.id]; asleep && o.obj == g.obj && o.read == g.read {
				continue
			}
			cand = append(cand, g)
		}
		if len(cand) == 0 {
			i.abortWith(pathEnd{"sleep-set"}, me)
			return
		}
		k := 0
		if len(cand) > 1 {
			k = i.ex.choose(len(cand), "sched")
		}
		chosen := cand[k]
		ns := map[int]pendingOp{}
		cop := pendingOp{chosen.obj, chosen.read, chosen.send}
		for gid, o := range cs.sleep {
			if gid != chosen.id && independent(o, cop) {
				ns[gid] = o
			}
		}
		for _, g := range cand[:k] {
			if op := (pendingOp{g.obj, g.read, g.send}); independent(op, cop) {
				ns[g.id] = op
			}
		}
		cs.sleep = ns
		en = []*G{chosen}
	}
	k := 0
	if len(en) > 1 {
		cs.states++
		k = i.ex.choose(len(en), "sched")
		cs.switches++
	}
	next := en[k]
	if next == me {
		return
	}
	cs.cur = next
	next.resume <- struct{}{}
	if me.done {
		return
	}
	<-me.resume
	if cs.abort {
		if me.id == 0 {
			panic(cs.fatal)
		}
		panic(abortPath{})
	}
}

func (i *Interp) describeBlocked() string {
	s := ""
	for _, g := range i.cs.gs {
		if !g.done {
			s += g.what + ";"
		}
	}
	return s
}

// abortWith terminates the whole path with the given panic value, delivered in G0.
func (i *Interp) abortWith(v interface{}, me *G) {
	cs := i.cs
	cs.abort = true
	cs.fatal = v
	if me.id == 0 {
		panic(v)
	}
	// wake G0, which will panic with cs.fatal
	cs.cur = cs.gs[0]
	cs.gs[0].resume <- struct{}{}
	panic(abortPath{})
}

// killAll wakes every parked goroutine so that it unwinds; called by G0 at path end.
func (i *Interp) killAll() {
	cs := i.cs
	cs.abort = true
	for _, g := range cs.gs[1:] {
		if !g.done {
			g.done = true
			select {
			case g.resume <- struct{}{}:
			default:
			}
		}
	}
	// every coroutine has unwound before the path's statistics are read
	cs.wg.Wait()
}

// afterKill (G0, after a killSignal was caught by zz.Try): the goroutines of the killed
// invocation are unwound and forgotten, the locks they held are released (the next invocation
// is a new process), and the path continues in G0.
func (i *Interp) afterKill() {
	cs := i.cs
	cs.abort = true
	for _, g := range cs.gs[1:] {
		if !g.done {
			g.done = true
			select {
			case g.resume <- struct{}{}:
			default:
			}
		}
	}
	cs.wg.Wait()
	cs.abort = false
	cs.fatal = nil
	cs.cur = cs.gs[0]
	cs.gs[0].enabled = nil
	cs.sleep = map[int]pendingOp{}
	cs.mutexes = map[*value]*mutexState{}
	cs.rws = nil
	cs.wgs = map[*value]*wgState{}
	select { // a wake-up sent to G0 that it did not consume
	case <-cs.gs[0].resume:
	default:
	}
}

func (i *Interp) spawn(fn value, args []value) {
	cs := i.cs
	g := &G{id: len(cs.gs), resume: make(chan struct{}, 1), what: "start"}
	cs.wg.Add(1)
	cs.gs = append(cs.gs, g)
	if i.rs != nil && i.rs.on {
		p := cs.cur
		g.vc = append(vclock{}, p.vc...).with(g.id, 1)
		p.vc = p.vc.with(p.id, p.vc.get(p.id)+1)
	}
	go func() {
		defer cs.wg.Done()
		<-g.resume
		defer func() {
			r := recover()
			wasDone := g.done
			g.done = true
			switch r.(type) {
			case nil:
				if !cs.abort {
					i.scheduleExit(g)
				}
			case abortPath:
			default:
				if wasDone || cs.abort {
					return
				}
				// engine fault, target panic or path end inside a goroutine: deliver to G0
				cs.abort = true
				cs.fatal = r
				cs.cur = cs.gs[0]
				cs.gs[0].resume <- struct{}{}
			}
		}()
		if cs.abort {
			panic(abortPath{})
		}
		i.call(nil, 0, fn, args)
	}()
}

func (i *Interp) scheduleExit(g *G) {
	defer func() {
		if r := recover(); r != nil {
			if _, ok := r.(abortPath); !ok {
				panic(r)
			}
		}
	}()
	i.schedule(g)
}

// ---- context model

var ctxType types.Type // placeholder dynamic type for engine contexts

func newCtx(parent *ctxObj) *ctxObj {
	c := &ctxObj{parent: parent, doneCh: &chanV{cap: 0}}
	c.doneCh.ctx = c
	if parent != nil {
		parent.children = append(parent.children, c)
		if parent.done {
			c.done = true
			c.doneCh.closed = true
			c.cause = parent.cause
		}
	}
	return c
}

func (c *ctxObj) root() *ctxObj {
	for c.parent != nil {
		c = c.parent
	}
	return c
}

func (c *ctxObj) cancel(cause value) {
	if c.done {
		return
	}
	c.done = true
	c.doneCh.closed = true
	c.cause = cause
	for _, ch := range c.children {
		ch.cancel(cause)
	}
}

func ctxOf(v value) *ctxObj {
	itf := v.(iface)
	if itf.t == nil {
		return nil
	}
	return itf.v.(*ctxObj)
}

// ctxErrValue is the value of context.Canceled / context.DeadlineExceeded.
func (i *Interp) ctxErrValue(name string) value {
	if p := i.prog.ImportedPackage("context"); p != nil {
		if g := p.Var(name); g != nil {
			v := *i.global(g)
			if e, ok := v.(iface); ok && e.t != nil {
				return e
			}
		}
	}
	return mkError(TStr("context canceled"))
}

func (i *Interp) ctxMethod(c *ctxObj, name string) value {
	switch name {
	case "Done":
		return &nativeFn{"ctx.Done", func(i *Interp, _ *frame, _ []value) value { return c.doneCh }}
	case "Err":
		return &nativeFn{"ctx.Err", func(i *Interp, _ *frame, _ []value) value {
			i.yieldR("ctx.Err", nil, c)
			if c.done {
				for a := c; a != nil; a = a.parent {
					i.vcAcquire(a)
				}
				if c.deadline {
					return i.ctxErrValue("DeadlineExceeded")
				}
				return i.ctxErrValue("Canceled")
			}
			return iface{}
		}}
	case "Value":
		return &nativeFn{"ctx.Value", func(i *Interp, _ *frame, a []value) value {
			if len(a) == 0 {
				return iface{}
			}
			for x := c; x != nil; x = x.parent {
				if x.key != nil {
					if e := equals(x.key, a[len(a)-1]); e.Const && e.B {
						return x.val
					}
				}
			}
			return iface{}
		}}
	case "Deadline":
		return &nativeFn{"ctx.Deadline", func(i *Interp, _ *frame, _ []value) value {
			fault("ctx.Deadline not modelled")
			return nil
		}}
	}
	fault("ctx method %s", name)
	return nil
}

func (i *Interp) recv(ch *chanV) value {
	if ch == nil {
		i.yield("recv nil chan", func() bool { return false })
	}
	if ch.ctx != nil {
		// receive from a context's Done channel: a read of the context tree's state
		i.yieldR("ctx.Done", func() bool { return ch.closed }, ch.ctx)
		for a := ch.ctx; a != nil; a = a.parent {
			i.vcAcquire(a)
		}
		return nil
	}
	i.yield("recv", func() bool { return len(ch.buf) > 0 || ch.closed }, ch)
	i.vcAcquire(ch)
	if len(ch.buf) > 0 {
		v := ch.buf[0]
		ch.buf = ch.buf[1:]
		return v
	}
	return nil // closed: zero value filled by caller
}

func (i *Interp) send(ch *chanV, v value) {
	i.yield("send", func() bool { return len(ch.buf) < ch.cap }, ch)
	i.vcRelease(ch)
	ch.buf = append(ch.buf, v)
}

func init() {
	bg := func(i *Interp, _ *frame, _ *ssa.Function, a []value) value {
		return iface{t: ctxType, v: newCtx(nil)}
	}
	withCancel := func(causeArg bool) intrinsic {
		return func(i *Interp, _ *frame, _ *ssa.Function, a []value) value {
			c := newCtx(ctxOf(a[0]))
			cancel := &nativeFn{"cancel", func(i *Interp, _ *frame, args []value) value {
				i.yield("cancel", nil, c)
				i.vcRelease(c)
				var cause value
				if causeArg && len(args) > 0 {
					cause = args[0]
				}
				c.cancel(cause)
				return nil
			}}
			return tuple{iface{t: ctxType, v: c}, cancel}
		}
	}
	concIntrinsics := map[string]intrinsic{
		"context.Background":      bg,
		"context.WithCancel":      withCancel(false),
		"context.WithCancelCause": withCancel(true),
		// a value context: done exactly when its parent is (it is a child in the tree)
		"context.WithValue": func(i *Interp, _ *frame, _ *ssa.Function, a []value) value {
			c := newCtx(ctxOf(a[0]))
			c.key, c.val = a[1], a[2]
			return iface{t: ctxType, v: c}
		},
		"(*sync.Mutex).Lock": func(i *Interp, _ *frame, _ *ssa.Function, a []value) value {
			p := a[0].(*value)
			m := i.cs.mutexes[p]
			if m == nil {
				m = &mutexState{}
				i.cs.mutexes[p] = m
			}
			i.yield("Lock", func() bool { return !m.locked }, m)
			m.locked = true
			i.vcAcquire(m)
			return nil
		},
		"(*sync.Mutex).Unlock": func(i *Interp, _ *frame, _ *ssa.Function, a []value) value {
			p := a[0].(*value)
			i.yield("Unlock", nil, i.cs.mutexes[p])
			i.vcRelease(i.cs.mutexes[p])
			i.cs.mutexes[p].locked = false
			return nil
		},
		// The RWMutexes of this code base guard the ordered maps (Vars, Tasks, Includes,
		// Matrix). Their operations are not scheduling points: each guarded map
		// operation is one atomic step (it performs no other visible operation while
		// holding the lock). Exclusion is still checked.
		"(*sync.RWMutex).Lock": func(i *Interp, _ *frame, _ *ssa.Function, a []value) value {
			st := i.rw(a[0])
			if st.writer || st.readers > 0 {
				fault("RWMutex.Lock would block inside an atomic step (writer=%v readers=%d)", st.writer, st.readers)
			}
			st.writer = true
			i.vcAcquire(st)
			i.vcAcquire(&st.rd)
			return nil
		},
		"(*sync.RWMutex).Unlock": func(i *Interp, _ *frame, _ *ssa.Function, a []value) value {
			i.vcRelease(i.rw(a[0]))
			i.rw(a[0]).writer = false
			return nil
		},
		"(*sync.RWMutex).RLock": func(i *Interp, _ *frame, _ *ssa.Function, a []value) value {
			st := i.rw(a[0])
			if st.writer {
				fault("RWMutex.RLock would block inside an atomic step")
			}
			st.readers++
			i.vcAcquire(st) // after earlier writers only
			return nil
		},
		"(*sync.RWMutex).RUnlock": func(i *Interp, _ *frame, _ *ssa.Function, a []value) value {
			i.vcRelease(&i.rw(a[0]).rd) // seen by later writers, not by other readers
			i.rw(a[0]).readers--
			return nil
		},
		"context.Cause": func(i *Interp, _ *frame, _ *ssa.Function, a []value) value {
			c := ctxOf(a[0])
			if c == nil || !c.done {
				return iface{}
			}
			if cv, ok := c.cause.(iface); ok && cv.t != nil {
				return cv
			}
			return i.ctxErrValue("Canceled")
		},
		"context.TODO": bg,
		"(*sync.WaitGroup).Add": func(i *Interp, _ *frame, _ *ssa.Function, a []value) value {
			p := a[0].(*value)
			w := i.cs.wgs[p]
			if w == nil {
				w = &wgState{}
				i.cs.wgs[p] = w
			}
			w.n += a[1].(*Term).signed()
			return nil
		},
		"(*sync.WaitGroup).Done": func(i *Interp, _ *frame, _ *ssa.Function, a []value) value {
			p := a[0].(*value)
			i.yield("wg.Done", nil, i.cs.wgs[p])
			i.vcRelease(i.cs.wgs[p])
			i.cs.wgs[p].n--
			return nil
		},
		"(*sync.WaitGroup).Wait": func(i *Interp, _ *frame, _ *ssa.Function, a []value) value {
			p := a[0].(*value)
			w := i.cs.wgs[p]
			if w == nil {
				return nil
			}
			i.yield("wg.Wait", func() bool { return w.n == 0 }, w)
			i.vcAcquire(w)
			return nil
		},
		"(*sync.Once).Do": func(i *Interp, caller *frame, _ *ssa.Function, a []value) value {
			p := a[0].(*value)
			o := i.cs.onces[p]
			if o == nil {
				o = &onceState{}
				i.cs.onces[p] = o
			}
			i.yield("once.Do", func() bool { return !o.running }, o)
			if o.done {
				i.vcAcquire(o)
				return nil
			}
			o.running = true
			i.call(caller, 0, a[1], nil)
			o.running, o.done = false, true
			i.vcRelease(o)
			return nil
		},
		"sync/atomic.AddInt32": func(i *Interp, _ *frame, _ *ssa.Function, a []value) value {
			p := a[0].(*value)
			i.yield("atomic", nil, p)
			i.vcAcquire(p)
			i.vcRelease(p)
			n := BVBin("bvadd", (*p).(*Term), a[1].(*Term))
			*p = n
			return n
		},
		zz + "Yield": func(i *Interp, _ *frame, _ *ssa.Function, a []value) value {
			i.yield("Yield", nil)
			return nil
		},
	}
	for k, v := range concIntrinsics {
		intrinsics[k] = v
	}
}
