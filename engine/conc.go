package main

import (
	"go/types"

	"golang.org/x/tools/go/ssa"
)

// G is an interpreted goroutine run as a coroutine.
type G struct {
	id      int
	resume  chan struct{}
	done    bool
	enabled func() bool // for the pending visible operation; nil = always
	what    string
	obj     interface{} // synchronisation object of the pending operation (nil = conflicts with everything)
}

type nativeFn struct {
	name string
	f    func(i *Interp, caller *frame, args []value) value
}

type ctxObj struct {
	parent   *ctxObj
	children []*ctxObj
	done     bool
	doneCh   *chanV
	cause    value
}

type mutexState struct{ locked bool }
type wgState struct{ n int64 }
type onceState struct{ running, done bool }

type concState struct {
	gs      []*G
	cur     *G
	abort   bool
	fatal   interface{}
	mutexes map[*value]*mutexState
	wgs     map[*value]*wgState
	onces   map[*value]*onceState
	switches int
	states, transitions int
	sleep    map[int]interface{} // gid -> obj of its pending op, for sleep-set reduction
	por      bool
}

type abortPath struct{}

func (i *Interp) initConc(por bool) {
	g0 := &G{id: 0, resume: make(chan struct{})}
	i.cs = &concState{sleep: map[int]interface{}{}, por: por, gs: []*G{g0}, cur: g0, mutexes: map[*value]*mutexState{}, wgs: map[*value]*wgState{}, onces: map[*value]*onceState{}}
}

// yield is called before a visible operation; it may switch goroutines.
func (i *Interp) yield(what string, enabled func() bool, obj ...interface{}) {
	cs := i.cs
	me := cs.cur
	me.enabled = enabled
	me.what = what
	me.obj = nil
	if len(obj) > 0 {
		me.obj = obj[0]
	}
	i.schedule(me)
	me.enabled = nil
}

// schedule picks the next goroutine to run; me is the caller (parked or exiting).
func (i *Interp) schedule(me *G) {
	cs := i.cs
	if cs.abort {
		if me.id == 0 {
			panic(cs.fatal)
		}
		panic(abortPath{})
	}
	var en []*G
	alive := 0
	for _, g := range cs.gs {
		if g.done {
			continue
		}
		alive++
		if g.enabled == nil || g.enabled() {
			en = append(en, g)
		}
	}
	if len(en) == 0 {
		if alive == 0 {
			return
		}
		// deadlock
		i.violations = append(i.violations, Violation{Kind: "deadlock", Label: "all goroutines blocked: " + i.describeBlocked()})
		i.abortWith(pathEnd{"deadlock"}, me)
		return
	}
	if cs.por {
		var cand []*G
		for _, g := range en {
			if o, asleep := cs.sleep[g.id]; asleep && o == g.obj {
				continue
			}
			cand = append(cand, g)
		}
		if len(cand) == 0 {
			i.abortWith(pathEnd{"sleep-set"}, me)
			return
		}
		k := 0
		if len(cand) > 1 {
			k = i.ex.choose(len(cand), "sched")
		}
		chosen := cand[k]
		ns := map[int]interface{}{}
		indep := func(o interface{}) bool { return o != nil && chosen.obj != nil && o != chosen.obj }
		for gid, o := range cs.sleep {
			if gid != chosen.id && indep(o) {
				ns[gid] = o
			}
		}
		for _, g := range cand[:k] {
			if indep(g.obj) {
				ns[g.id] = g.obj
			}
		}
		cs.sleep = ns
		en = []*G{chosen}
	}
	k := 0
	if len(en) > 1 {
		k = i.ex.choose(len(en), "sched")
		cs.switches++
	}
	next := en[k]
	if next == me {
		return
	}
	cs.cur = next
	next.resume <- struct{}{}
	if me.done {
		return
	}
	<-me.resume
	if cs.abort {
		if me.id == 0 {
			panic(cs.fatal)
		}
		panic(abortPath{})
	}
}

func (i *Interp) describeBlocked() string {
	s := ""
	for _, g := range i.cs.gs {
		if !g.done {
			s += g.what + ";"
		}
	}
	return s
}

// abortWith terminates the whole path with the given panic value, delivered in G0.
func (i *Interp) abortWith(v interface{}, me *G) {
	cs := i.cs
	cs.abort = true
	cs.fatal = v
	if me.id == 0 {
		panic(v)
	}
	// wake G0, which will panic with cs.fatal
	cs.cur = cs.gs[0]
	cs.gs[0].resume <- struct{}{}
	panic(abortPath{})
}

// killAll wakes every parked goroutine so that it unwinds; called by G0 at path end.
func (i *Interp) killAll() {
	cs := i.cs
	cs.abort = true
	for _, g := range cs.gs[1:] {
		if !g.done {
			g.done = true
			select {
			case g.resume <- struct{}{}:
			default:
			}
		}
	}
}

func (i *Interp) spawn(fn value, args []value) {
	cs := i.cs
	g := &G{id: len(cs.gs), resume: make(chan struct{}), what: "start"}
	cs.gs = append(cs.gs, g)
	go func() {
		<-g.resume
		defer func() {
			r := recover()
			wasDone := g.done
			g.done = true
			switch r.(type) {
			case nil:
				if !cs.abort {
					i.scheduleExit(g)
				}
			case abortPath:
			default:
				if wasDone || cs.abort {
					return
				}
				// engine fault, target panic or path end inside a goroutine: deliver to G0
				cs.abort = true
				cs.fatal = r
				cs.cur = cs.gs[0]
				cs.gs[0].resume <- struct{}{}
			}
		}()
		if cs.abort {
			panic(abortPath{})
		}
		i.call(nil, 0, fn, args)
	}()
}

func (i *Interp) scheduleExit(g *G) {
	defer func() {
		if r := recover(); r != nil {
			if _, ok := r.(abortPath); !ok {
				panic(r)
			}
		}
	}()
	i.schedule(g)
}

// ---- context model

var ctxType types.Type // placeholder dynamic type for engine contexts

func newCtx(parent *ctxObj) *ctxObj {
	c := &ctxObj{parent: parent, doneCh: &chanV{cap: 0}}
	if parent != nil {
		parent.children = append(parent.children, c)
		if parent.done {
			c.done = true
			c.doneCh.closed = true
			c.cause = parent.cause
		}
	}
	return c
}

func (c *ctxObj) cancel(cause value) {
	if c.done {
		return
	}
	c.done = true
	c.doneCh.closed = true
	c.cause = cause
	for _, ch := range c.children {
		ch.cancel(cause)
	}
}

func ctxOf(v value) *ctxObj {
	itf := v.(iface)
	if itf.t == nil {
		return nil
	}
	return itf.v.(*ctxObj)
}

func (i *Interp) ctxMethod(c *ctxObj, name string) value {
	switch name {
	case "Done":
		return &nativeFn{"ctx.Done", func(i *Interp, _ *frame, _ []value) value { return c.doneCh }}
	case "Err":
		return &nativeFn{"ctx.Err", func(i *Interp, _ *frame, _ []value) value {
			i.yield("ctx.Err", nil, c.doneCh)
			if c.done {
				return mkError(TStr("context canceled"))
			}
			return iface{}
		}}
	}
	fault("ctx method %s", name)
	return nil
}

func (i *Interp) recv(ch *chanV) value {
	if ch == nil {
		i.yield("recv nil chan", func() bool { return false })
	}
	i.yield("recv", func() bool { return len(ch.buf) > 0 || ch.closed }, ch)
	if len(ch.buf) > 0 {
		v := ch.buf[0]
		ch.buf = ch.buf[1:]
		return v
	}
	return nil // closed: zero value filled by caller
}

func (i *Interp) send(ch *chanV, v value) {
	i.yield("send", func() bool { return len(ch.buf) < ch.cap }, ch)
	ch.buf = append(ch.buf, v)
}

func init() {
	bg := func(i *Interp, _ *frame, _ *ssa.Function, a []value) value {
		return iface{t: ctxType, v: newCtx(nil)}
	}
	withCancel := func(causeArg bool) intrinsic {
		return func(i *Interp, _ *frame, _ *ssa.Function, a []value) value {
			c := newCtx(ctxOf(a[0]))
			cancel := &nativeFn{"cancel", func(i *Interp, _ *frame, args []value) value {
				i.yield("cancel", nil, c.doneCh)
				var cause value
				if causeArg && len(args) > 0 {
					cause = args[0]
				}
				c.cancel(cause)
				return nil
			}}
			return tuple{iface{t: ctxType, v: c}, cancel}
		}
	}
	concIntrinsics := map[string]intrinsic{
		"context.Background":      bg,
		"context.WithCancel":      withCancel(false),
		"context.WithCancelCause": withCancel(true),
		"(*sync.Mutex).Lock": func(i *Interp, _ *frame, _ *ssa.Function, a []value) value {
			p := a[0].(*value)
			m := i.cs.mutexes[p]
			if m == nil {
				m = &mutexState{}
				i.cs.mutexes[p] = m
			}
			i.yield("Lock", func() bool { return !m.locked }, m)
			m.locked = true
			return nil
		},
		"(*sync.Mutex).Unlock": func(i *Interp, _ *frame, _ *ssa.Function, a []value) value {
			p := a[0].(*value)
			i.yield("Unlock", nil, i.cs.mutexes[p])
			i.cs.mutexes[p].locked = false
			return nil
		},
		"(*sync.WaitGroup).Add": func(i *Interp, _ *frame, _ *ssa.Function, a []value) value {
			p := a[0].(*value)
			w := i.cs.wgs[p]
			if w == nil {
				w = &wgState{}
				i.cs.wgs[p] = w
			}
			w.n += a[1].(*Term).signed()
			return nil
		},
		"(*sync.WaitGroup).Done": func(i *Interp, _ *frame, _ *ssa.Function, a []value) value {
			p := a[0].(*value)
			i.yield("wg.Done", nil, i.cs.wgs[p])
			i.cs.wgs[p].n--
			return nil
		},
		"(*sync.WaitGroup).Wait": func(i *Interp, _ *frame, _ *ssa.Function, a []value) value {
			p := a[0].(*value)
			w := i.cs.wgs[p]
			if w == nil {
				return nil
			}
			i.yield("wg.Wait", func() bool { return w.n == 0 }, w)
			return nil
		},
		"(*sync.Once).Do": func(i *Interp, caller *frame, _ *ssa.Function, a []value) value {
			p := a[0].(*value)
			o := i.cs.onces[p]
			if o == nil {
				o = &onceState{}
				i.cs.onces[p] = o
			}
			i.yield("once.Do", func() bool { return !o.running }, o)
			if o.done {
				return nil
			}
			o.running = true
			i.call(caller, 0, a[1], nil)
			o.running, o.done = false, true
			return nil
		},
		"sync/atomic.AddInt32": func(i *Interp, _ *frame, _ *ssa.Function, a []value) value {
			p := a[0].(*value)
			i.yield("atomic", nil, p)
			n := BVBin("bvadd", (*p).(*Term), a[1].(*Term))
			*p = n
			return n
		},
		zz + "Yield": func(i *Interp, _ *frame, _ *ssa.Function, a []value) value {
			i.yield("Yield", nil)
			return nil
		},
	}
	for k, v := range concIntrinsics {
		intrinsics[k] = v
	}
}
