package main

import (
	"strings"

	"golang.org/x/tools/go/ssa"
)

// ---- templater from source (__tmplsrc=1) -------------------------------------------------
//
// By default templater.ReplaceWithExtra / ResolveRefWithExtra are replaced as a whole by the
// model in intrinsics.go. With __tmplsrc=1 their bodies run from source (the error latch,
// the lazily built cacheMap, maps.Clone / maps.Copy of the extra variables,
// deepcopy.TraverseStringsFunc over the value through the reflect model, the "<no value>"
// clean-up) and only the text/template engine itself is modelled: New/Funcs/Parse/Execute/
// Resolve of github.com/go-task/template render the same action subset as templateRender,
// against the data map the real code built.

type tmplObj struct{ text *Term }

var tmplSrcSkip = map[string]bool{
	"github.com/go-task/task/v3/internal/templater.ReplaceWithExtra":    true,
	"github.com/go-task/task/v3/internal/templater.ResolveRefWithExtra": true,
}

func init() {
	tp := "github.com/go-task/template."
	intrinsics[tp+"New"] = func(i *Interp, _ *frame, _ *ssa.Function, a []value) value { return &tmplObj{} }
	intrinsics["(*"+tp+"Template).Funcs"] = func(i *Interp, _ *frame, _ *ssa.Function, a []value) value { return a[0] }
	intrinsics["(*"+tp+"Template).Parse"] = func(i *Interp, _ *frame, _ *ssa.Function, a []value) value {
		return tuple{&tmplObj{text: sterm(a[1])}, iface{}}
	}
	intrinsics["(*"+tp+"Template).Execute"] = func(i *Interp, caller *frame, _ *ssa.Function, a []value) value {
		t := a[0].(*tmplObj)
		data, _ := a[2].(iface).v.(*mapV)
		var rendered *Term
		var failed value
		func() {
			defer func() {
				if r := recover(); r != nil {
					tf, ok := r.(tmplFail)
					if !ok {
						panic(r)
					}
					failed = tf.err
				}
			}()
			rendered = i.templateRender(caller, t.text, nil, data)
		}()
		if failed != nil {
			return failed
		}
		w := a[1].(iface)
		if w.t == nil || w.t.String() != "*bytes.Buffer" {
			fault("template model: Execute into %v", w.t)
		}
		intrinsics["(*bytes.Buffer).WriteString"](i, caller, nil, []value{w.v, rendered})
		return iface{}
	}
	intrinsics["(*"+tp+"Template).Resolve"] = func(i *Interp, caller *frame, _ *ssa.Function, a []value) value {
		t := a[0].(*tmplObj)
		if !t.text.Const {
			fault("template model: Resolve of symbolic text")
		}
		ref := strings.TrimSpace(strings.TrimSuffix(strings.TrimPrefix(t.text.S, "{{"), "}}"))
		if !strings.HasPrefix(ref, ".") || strings.ContainsAny(ref[1:], " .|()") {
			fault("template model: unsupported reference %q", ref)
		}
		data, _ := a[1].(iface).v.(*mapV)
		v, ok := i.templateLookup(caller, nil, data, ref[1:])
		if !ok {
			return tuple{iface{}, iface{}}
		}
		return tuple{v, iface{}}
	}
	intrinsics["maps.Clone"] = func(i *Interp, _ *frame, _ *ssa.Function, a []value) value {
		m, _ := a[0].(*mapV)
		if m == nil {
			return a[0]
		}
		return &mapV{keys: append([]value(nil), m.keys...), vals: append([]value(nil), m.vals...)}
	}
}
