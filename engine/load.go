package main

import (
	"crypto/sha256"
	"fmt"
	goast "go/ast"
	"go/types"
	"os"
	"path/filepath"
	"sort"
	"strings"
	"sync"
	"time"

	"golang.org/x/tools/go/packages"
	"golang.org/x/tools/go/ssa"
	"golang.org/x/tools/go/ssa/ssautil"
)

// repoDir is the tree under check. Registered commands always use /repo; GOSMT_REPO lets a
// development run point the same machinery at a scratch worktree (seeded changes) instead.
var repoDir = func() string {
	if d := os.Getenv("GOSMT_REPO"); d != "" {
		return d
	}
	return "/repo"
}()

var verifDir = "/verif"

// Loaded is the SSA program built from /repo's current working tree plus the
// harness overlay. It is rebuilt on every run; nothing is cached.
type Loaded struct {
	prog     *ssa.Program
	pkgs     []*packages.Package
	stubs    map[string]*ssa.Function // //gosmt:stub targets -> harness function
	loadTime time.Duration
	fileSHA  map[string]string
	overlay  map[string][]byte
	doms     map[*ssa.Function]bool
}

// harnessOverlay maps every file under /verif/harness onto the same relative
// path under /repo (virtual files; /repo itself is not touched).
func harnessOverlay() map[string][]byte {
	overlay := map[string][]byte{}
	hdir := filepath.Join(verifDir, "harness")
	filepath.Walk(hdir, func(p string, info os.FileInfo, err error) error {
		if err == nil && !info.IsDir() && strings.HasSuffix(p, ".go") && !strings.HasSuffix(p, "_native.go") && !strings.HasSuffix(p, "_test.go") {
			rel, _ := filepath.Rel(hdir, p)
			b, _ := os.ReadFile(p)
			overlay[filepath.Join(repoDir, rel)] = b
		}
		return nil
	})
	return overlay
}

func load(patterns []string) (*Loaded, error) {
	t0 := time.Now()
	overlay := harnessOverlay()
	cfg := &packages.Config{Mode: packages.LoadAllSyntax, Dir: repoDir, Overlay: overlay,
		Env: append(os.Environ(), "GOFLAGS=-mod=mod", "GOPROXY=off", "GOSUMDB=off", "GOTOOLCHAIN=local")}
	pkgs, err := packages.Load(cfg, patterns...)
	if err != nil {
		return nil, err
	}
	var errs []string
	packages.Visit(pkgs, nil, func(p *packages.Package) {
		for _, e := range p.Errors {
			errs = append(errs, e.Error())
		}
	})
	if len(errs) > 0 {
		return nil, fmt.Errorf("harness or repository does not type-check:\n  %s", strings.Join(errs, "\n  "))
	}
	prog, _ := ssautil.AllPackages(pkgs, ssa.InstantiateGenerics)
	// SSA bodies are built eagerly for the go-task packages and lazily (on first
	// call, see callSSA) for dependencies.
	var bw sync.WaitGroup
	for _, p := range prog.AllPackages() {
		if strings.HasPrefix(p.Pkg.Path(), modulePath) {
			bw.Add(1)
			go func(p *ssa.Package) { defer bw.Done(); p.Build() }(p)
		}
	}
	bw.Wait()
	l := &Loaded{prog: prog, pkgs: pkgs, stubs: map[string]*ssa.Function{}, fileSHA: map[string]string{}, overlay: overlay}
	for _, p := range prog.AllPackages() {
		switch p.Pkg.Path() {
		case "errors":
			errType = types.NewPointer(p.Pkg.Scope().Lookup("errorString").Type())
		case "context":
			ctxType = types.NewPointer(p.Pkg.Scope().Lookup("cancelCtx").Type())
		}
	}
	// harness-defined stubs: doc comment "//gosmt:stub <full function name>"
	packages.Visit(pkgs, nil, func(pk *packages.Package) {
		sp := prog.Package(pk.Types)
		if sp == nil {
			return
		}
		for _, f := range pk.Syntax {
			fname := pk.Fset.Position(f.Pos()).Filename
			if !strings.Contains(filepath.Base(fname), "zz_") {
				continue
			}
			for _, d := range f.Decls {
				fd, ok := d.(*goast.FuncDecl)
				if !ok || fd.Doc == nil {
					continue
				}
				for _, c := range fd.Doc.List {
					if strings.HasPrefix(c.Text, "//gosmt:stub ") {
						target := strings.TrimSpace(strings.TrimPrefix(c.Text, "//gosmt:stub "))
						if fn := sp.Func(fd.Name.Name); fn != nil {
							l.stubs[pk.PkgPath+"|"+target] = fn
						}
					}
				}
			}
		}
	})
	l.loadTime = time.Since(t0)
	return l, nil
}

func (l *Loaded) findFunc(pkgPath, name string) *ssa.Function {
	for _, p := range l.prog.AllPackages() {
		if p.Pkg.Path() == pkgPath {
			return p.Func(name)
		}
	}
	return nil
}

// sourceSHA returns the sha256 of the file defining fn (for the evidence).
func (l *Loaded) sourceSHA(fn *ssa.Function) (string, string) {
	if fn == nil || fn.Prog == nil {
		return "", ""
	}
	pos := fn.Pos()
	if !pos.IsValid() {
		if fn.Origin() != nil {
			pos = fn.Origin().Pos()
		}
		if !pos.IsValid() && fn.Parent() != nil {
			return l.sourceSHA(fn.Parent())
		}
	}
	if !pos.IsValid() {
		return "", ""
	}
	file := fn.Prog.Fset.Position(pos).Filename
	if s, ok := l.fileSHA[file]; ok {
		return file, s
	}
	var b []byte
	if ob, ok := l.overlay[file]; ok {
		b = ob
	} else {
		b, _ = os.ReadFile(file)
	}
	s := fmt.Sprintf("%x", sha256.Sum256(b))[:16]
	l.fileSHA[file] = s
	return file, s
}

func sortedKeys[V any](m map[string]V) []string {
	ks := make([]string, 0, len(m))
	for k := range m {
		ks = append(ks, k)
	}
	sort.Strings(ks)
	return ks
}

func (l *Loaded) namedType(pkgPath, name string) types.Type {
	for _, p := range l.prog.AllPackages() {
		if p.Pkg.Path() == pkgPath {
			if o := p.Pkg.Scope().Lookup(name); o != nil {
				return o.Type()
			}
		}
	}
	return nil
}
