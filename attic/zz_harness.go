package task

import (
	"context"

	"golang.org/x/sync/errgroup"

	"github.com/go-task/task/v3/errors"
	zz "github.com/go-task/task/v3/internal/zzsym"
	"github.com/go-task/task/v3/internal/logger"
	"github.com/go-task/task/v3/taskfile/ast"
)

// Two callers reach the same run:once task through the real startExecution.
func ZZ_K_startExecution() {
	e := &Executor{executionHashes: map[string]context.Context{}, Logger: &logger.Logger{}, Taskfile: &ast.Taskfile{Run: "always"}}
	t := &ast.Task{Task: "s", Run: "once", Location: &ast.Location{Taskfile: "f"}}
	fail := zz.Bool("s_fails")
	runs := 0
	finished := false
	var g errgroup.Group
	for k := 0; k < 2; k++ {
		g.Go(func() error {
			err := e.startExecution(context.Background(), t, func(ctx context.Context) error {
				runs++
				zz.Yield() // the command takes time
				finished = true
				if fail {
					return errors.New("boom")
				}
				return nil
			})
			zz.Assert(finished, "caller-proceeds-only-after-shared-execution-finished")
			if fail {
				zz.Assert(err != nil, "caller-observes-failure")
			}
			return err
		})
	}
	_ = g.Wait()
	zz.Assert(runs == 1, "once-runs-once")
	zz.Reach("end")
}

// Same with the semaphore: N=1, dedup waiter must not deadlock.
func ZZ_K_startExecution_sem() {
	e := &Executor{executionHashes: map[string]context.Context{}, Logger: &logger.Logger{}, Taskfile: &ast.Taskfile{Run: "always"}}
	n := zz.Int("N", 1, 2)
	e.concurrencySemaphore = make(chan struct{}, n)
	t := &ast.Task{Task: "s", Run: "once", Location: &ast.Location{Taskfile: "f"}}
	runs := 0
	var g errgroup.Group
	for k := 0; k < 2; k++ {
		g.Go(func() error {
			release := e.acquireConcurrencyLimit()
			defer release()
			return e.startExecution(context.Background(), t, func(ctx context.Context) error {
				runs++
				zz.Yield()
				return nil
			})
		})
	}
	_ = g.Wait()
	zz.Assert(runs == 1, "once-runs-once")
	zz.Reach("end")
}
