package fingerprint

import (
	"os"

	zz "github.com/go-task/task/v3/internal/zzsym"
	"github.com/go-task/task/v3/taskfile/ast"
)

type zzFile struct {
	exists  bool
	content string
}

var zzFS map[string]*zzFile
var zzWrites int
var zzSrcHash string

//gosmt:stub os.ReadFile
func zzReadFile(name string) ([]byte, error) {
	f := zzFS[name]
	if f == nil || !f.exists {
		return nil, os.ErrNotExist
	}
	return []byte(f.content), nil
}

//gosmt:stub os.WriteFile
func zzWriteFile(name string, data []byte, perm os.FileMode) error {
	zzWrites++
	zzFS[name] = &zzFile{exists: true, content: string(data)}
	return nil
}

//gosmt:stub os.MkdirAll
func zzMkdirAll(path string, perm os.FileMode) error { return nil }

//gosmt:stub os.Remove
func zzRemove(name string) error {
	zzWrites++
	if f := zzFS[name]; f != nil {
		f.exists = false
	}
	return nil
}

//gosmt:stub (*github.com/go-task/task/v3/internal/fingerprint.ChecksumChecker).checksum
func zzChecksum(c *ChecksumChecker, t *ast.Task) (string, error) { return zzSrcHash, nil }

//gosmt:stub github.com/go-task/task/v3/internal/fingerprint.normalizeFilename
func zzNormalize(f string) string { return f }

func ZZ_C04_checksum_history() {
	zzFS = map[string]*zzFile{}
	task := &ast.Task{Task: "t", Sources: []*ast.Glob{{Glob: "src"}}, Dir: "/p"}
	dry := zz.Bool("dry1")
	checker := NewChecksumChecker("/p/.task", dry)
	h1 := zz.Str("h1", 2, "ab")
	zz.Assume(h1 != "")
	zzSrcHash = h1
	up1, _ := checker.IsUpToDate(task)
	zz.Assert(!up1, "fresh-state-never-up-to-date")
	mode := zz.Int("mode1", 0, 3) // 0 all cmds ok, 1 a cmd failed, 2 prompt declined, 3 killed
	ranOK := mode == 0 && !dry
	if mode == 1 && !dry {
		_ = checker.OnError(task)
	}
	if dry {
		zz.Assert(zzWrites == 0, "dry-run-writes-nothing")
	}
	if zz.Bool("edit") {
		zzSrcHash = zz.Str("h2", 2, "ab")
		zz.Assume(zzSrcHash != "")
	}
	checker2 := NewChecksumChecker("/p/.task", false)
	up2, _ := checker2.IsUpToDate(task)
	if up2 {
		zz.Reach("skipped")
		zz.Assert(ranOK && zzSrcHash == h1, "skip-only-after-successful-attempt-on-same-fingerprint")
	} else {
		zz.Reach("ran")
		zz.Assert(!(ranOK && zzSrcHash == h1), "idempotent-after-success")
	}
}
