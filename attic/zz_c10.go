package task

import (
	"github.com/Masterminds/semver/v3"

	zz "github.com/go-task/task/v3/internal/zzsym"
	"github.com/go-task/task/v3/internal/logger"
	"github.com/go-task/task/v3/taskfile/ast"
)

func ZZ_C10_precedence() {
	v := &semver.Version{}
	root := &ast.Taskfile{Version: v, Vars: ast.NewVars(), Env: ast.NewVars(), Tasks: ast.NewTasks()}
	hGlobal := zz.Bool("global")
	if hGlobal {
		root.Vars.Set("X", ast.Var{Value: "global"})
	}
	inc := &ast.Taskfile{Version: v, Vars: ast.NewVars(), Env: ast.NewVars(), Tasks: ast.NewTasks()}
	hIncFile := zz.Bool("incfile")
	if hIncFile {
		inc.Vars.Set("X", ast.Var{Value: "incfile"})
	}
	task := &ast.Task{Task: "t", Location: &ast.Location{Taskfile: "f"}, Vars: ast.NewVars()}
	hTask := zz.Bool("taskvars")
	if hTask {
		task.Vars.Set("X", ast.Var{Value: "task"})
	}
	inc.Tasks.Set("t", task)
	include := &ast.Include{Namespace: "ns", AdvancedImport: true, Vars: ast.NewVars()}
	hIncStmt := zz.Bool("incstmt")
	if hIncStmt {
		include.Vars.Set("X", ast.Var{Value: "incstmt"})
	}
	if err := root.Merge(inc, include); err != nil {
		zz.Reach("merge-error")
		return
	}
	merged, ok := root.Tasks.Get("ns:t")
	zz.Assert(ok, "merged-task-present")
	c := &Compiler{Dir: "/d", TaskfileEnv: root.Env, TaskfileVars: root.Vars, Logger: &logger.Logger{}}
	call := &Call{Task: "ns:t", Vars: ast.NewVars()}
	hCall := zz.Bool("call")
	if hCall {
		call.Vars.Set("X", ast.Var{Value: "call"})
	}
	vars, err := c.getVariables(merged, call, true)
	if err != nil {
		zz.Reach("getvars-error")
		return
	}
	got, found := vars.Get("X")
	want := ""
	switch {
	case hTask:
		want = "task"
	case hCall:
		want = "call"
	case hIncFile:
		want = "incfile"
	case hIncStmt:
		want = "incstmt"
	case hGlobal:
		want = "global"
	}
	if want != "" {
		zz.Assert(found && got.Value == want, "documented-precedence")
	}
	zz.Reach("end")
}
