package task

import (
	"os"
	"strings"

	"github.com/Masterminds/semver/v3"

	"github.com/go-task/task/v3/internal/env"
	"github.com/go-task/task/v3/internal/experiments"
	"github.com/go-task/task/v3/internal/logger"
	zz "github.com/go-task/task/v3/internal/zzsym"
	"github.com/go-task/task/v3/taskfile/ast"
)

const zzVarName = "ZZX"

// zzVal makes the value of one definition site: a literal or (for sites where the
// harness allows it) a dynamic sh: variable whose command prints the text.
func zzVal(site string, allowSh bool) (ast.Var, string) {
	v := zz.Str("val."+site, 2, "ab")
	if allowSh && zz.Bool("sh."+site) {
		zz.Assume(v != "")
		cmd := "echo " + v
		return ast.Var{Sh: &cmd}, v
	}
	return ast.Var{Value: v}, v
}

func zzSetProcessEnv(name string, present bool, val string) {
	if zz.Native() {
		if present {
			os.Setenv(name, val)
		} else {
			os.Unsetenv(name)
		}
		return
	}
	zzEnviron = []string{"HOME=/h"}
	if present {
		zzEnviron = append(zzEnviron, name+"="+val)
	}
}

// ZZ_C10_Vars: the value a task sees for a variable is the one of the highest
// priority site defining it: task vars > call vars > included-Taskfile vars >
// include-statement vars > global vars (incl. CLI assignments) > OS environment.
func ZZ_C10_Vars() {
	zzRun = zzEchoShell
	included := zz.Bool("task_is_in_included_file")
	ver := &semver.Version{}
	root := &ast.Taskfile{Version: ver, Vars: ast.NewVars(), Env: ast.NewVars(), Tasks: ast.NewTasks()}
	type site struct {
		name    string
		present bool
		val     string
	}
	var sites []site // in descending priority
	add := func(name string, present bool, val string) { sites = append(sites, site{name, present, val}) }

	task := &ast.Task{Task: "t", Location: &ast.Location{Taskfile: "/d/f.yml"}, Vars: ast.NewVars()}
	hTask := zz.Bool("def.task")
	tv, tval := zzVal("task", true)
	if hTask {
		task.Vars.Set(zzVarName, tv)
	}
	add("task", hTask, tval)

	call := &Call{Task: "t", Vars: ast.NewVars()}
	hCall := zz.Bool("def.call")
	cv, cval := zzVal("call", false)
	if hCall {
		call.Vars.Set(zzVarName, cv)
	}
	add("call", hCall, cval)

	hGlobal := zz.Bool("def.global")
	gv, gval := zzVal("global", true)
	hCLI := zz.Bool("def.cli")
	cliv, clival := zzVal("cli", false)

	var merged *ast.Task
	stmtAlt, stmtAltPresent := "", false
	if included {
		call.Task = "ns:t"
		inc := &ast.Taskfile{Version: ver, Vars: ast.NewVars(), Env: ast.NewVars(), Tasks: ast.NewTasks()}
		hIncFile := zz.Bool("def.incfile")
		iv, ival := zzVal("incfile", false)
		if hIncFile {
			inc.Vars.Set(zzVarName, iv)
		}
		add("included-taskfile", hIncFile, ival)
		inc.Tasks.Set("t", task)
		// the short form `ns: ./dir` has no vars of its own
		mapping := zz.Bool("include_is_mapping_form")
		include := &ast.Include{Namespace: "ns", AdvancedImport: mapping, Vars: ast.NewVars()}
		hIncStmt := zz.Bool("def.incstmt")
		zz.Assume(mapping || !hIncStmt)
		sv, sval := zzVal("incstmt", false)
		if hIncStmt {
			include.Vars.Set(zzVarName, sv)
		}
		add("include-statement", hIncStmt, sval)
		if hGlobal {
			root.Vars.Set(zzVarName, gv)
		}
		key := "ns:t"
		// a sibling include whose Taskfile defines the name too (merged later): never what a
		// task of this file sees while its own Taskfile defines the name
		hSibling := hIncFile && zz.Bool("def.sibling_included_taskfile")
		sibVal := zz.Str("val.sibling", 2, "ab")
		mergeSibling := func() bool {
			if !hSibling {
				return true
			}
			zz.Assume(sibVal != ival)
			sib := &ast.Taskfile{Version: ver, Vars: ast.NewVars(), Env: ast.NewVars(), Tasks: ast.NewTasks()}
			sib.Vars.Set(zzVarName, ast.Var{Value: sibVal})
			sib.Tasks.Set("other", &ast.Task{Task: "other", Location: &ast.Location{Taskfile: "/d/sib.yml"}, Vars: ast.NewVars()})
			return root.Merge(sib, &ast.Include{Namespace: "sib", AdvancedImport: zz.Bool("sibling_include_is_mapping_form"), Vars: ast.NewVars()}) == nil
		}
		if zz.Bool("nested_two_levels") {
			zz.Assume(mapping)
			// root includes `outer` (its include statement may carry an unrelated var),
			// outer includes the task's file with the include statement above
			outer := &ast.Taskfile{Version: ver, Vars: ast.NewVars(), Env: ast.NewVars(), Tasks: ast.NewTasks()}
			// the intermediate Taskfile may define the name too: still "variables of the
			// included Taskfile" for the root's include (below the task's own file, above
			// every include statement)
			hOuterFile := zz.Bool("def.outerfile")
			ofv, ofval := zzVal("outerfile", false)
			if hOuterFile {
				outer.Vars.Set(zzVarName, ofv)
			}
			sites = append(sites[:3], append([]site{{"intermediate-taskfile", hOuterFile, ofval}}, sites[3:]...)...)
			if err := outer.Merge(inc, include); err != nil {
				zz.Assert(false, "merge-must-not-fail")
				return
			}
			outerInclude := &ast.Include{Namespace: "o", AdvancedImport: true, Vars: ast.NewVars()}
			if zz.Bool("outer_include_has_unrelated_var") {
				outerInclude.Vars.Set("UNRELATED", ast.Var{Value: "u"})
			}
			// ... and so may the root's include statement (which of the two include
			// statements wins over the other is not documented: either is accepted)
			hOuterStmt := zz.Bool("def.outerstmt")
			osv, osval := zzVal("outerstmt", false)
			if hOuterStmt {
				outerInclude.Vars.Set(zzVarName, osv)
			}
			stmtAlt, stmtAltPresent = osval, hOuterStmt
			if !hIncStmt { // the outer statement takes the inner one's place in the order
				sites[len(sites)-1] = site{"include-statement", hOuterStmt, osval}
			}
			if err := root.Merge(outer, outerInclude); err != nil {
				zz.Assert(false, "merge-must-not-fail")
				return
			}
			key = "o:ns:t"
		} else if err := root.Merge(inc, include); err != nil {
			zz.Assert(false, "merge-must-not-fail")
			return
		}
		if !mergeSibling() {
			zz.Assert(false, "merge-must-not-fail")
			return
		}
		call.Task = key
		m, ok := root.Tasks.Get(key)
		zz.Assert(ok, "merged-task-present")
		if !ok {
			return
		}
		merged = m
	} else {
		if hGlobal {
			root.Vars.Set(zzVarName, gv)
		}
		root.Tasks.Set("t", task)
		merged = task
	}
	// NAME=value on the command line is merged into the global vars after loading
	if hCLI {
		globals := ast.NewVars()
		globals.Set(zzVarName, cliv)
		root.Vars.Merge(globals, nil)
	}
	add("cli", hCLI, clival)
	add("global", hGlobal, gval)
	hEnv := zz.Bool("def.osenv")
	eval := zz.Str("val.osenv", 2, "ab")
	zzSetProcessEnv(zzVarName, hEnv, eval)
	add("osenv", hEnv, eval)

	c := &Compiler{Dir: "/d", TaskfileEnv: root.Env, TaskfileVars: root.Vars, Logger: &logger.Logger{Stderr: os.Stderr, Stdout: os.Stdout}}
	vars, err := c.GetVariables(merged, call)
	zz.Assert(err == nil, "no-error")
	if err != nil {
		return
	}
	got, found := vars.Get(zzVarName)
	want, wantSite := "", ""
	for _, s := range sites {
		if s.present {
			want, wantSite = s.val, s.name
			break
		}
	}
	if wantSite != "" {
		gs, _ := got.Value.(string)
		okAlt := wantSite == "include-statement" && stmtAltPresent && gs == stmtAlt
		zz.Assert(found && (gs == want || okAlt), "precedence/"+wantSite+"-wins")
	} else {
		zz.Assert(!found, "undefined-stays-undefined")
	}
	// special variables are available unless overridden
	tk, ok := vars.Get("TASK")
	tks, _ := tk.Value.(string)
	zz.Assert(ok && tks == merged.Task, "special-var-TASK")
	if zz.Twin() {
		zz.Assert(false, "twin")
	}
	zz.Reach("end")
}

// ZZ_C10_Env: environment seen by commands: process environment first (unless
// the ENV_PRECEDENCE experiment is on), then task env > global env.
func ZZ_C10_Env() {
	zzRun = zzEchoShell
	hTaskEnv := zz.Bool("def.taskenv")
	tval := zz.Str("val.taskenv", 2, "ab")
	hGlobalEnv := zz.Bool("def.globalenv")
	gval := zz.Str("val.globalenv", 2, "ab")
	hProc := zz.Bool("def.process")
	pval := zz.Str("val.process", 2, "ab")
	precedence := zz.Bool("experiment.env_precedence")
	zzSetExperiment(&experiments.EnvPrecedence, "ENV_PRECEDENCE", precedence)
	zzSetProcessEnv(zzVarName, hProc, pval)

	tf := &ast.Taskfile{Vars: ast.NewVars(), Env: ast.NewVars(), Tasks: ast.NewTasks()}
	if hGlobalEnv {
		tf.Env.Set(zzVarName, ast.Var{Value: gval})
	}
	t := &ast.Task{Task: "t", Location: &ast.Location{Taskfile: "/d/f.yml"}, Vars: ast.NewVars(), Env: ast.NewVars()}
	if hTaskEnv {
		t.Env.Set(zzVarName, ast.Var{Value: tval})
	}
	tf.Tasks.Set("t", t)
	e := &Executor{Taskfile: tf, Logger: &logger.Logger{Stderr: os.Stderr, Stdout: os.Stdout}}
	e.Compiler = &Compiler{Dir: "", TaskfileEnv: tf.Env, TaskfileVars: tf.Vars, Logger: e.Logger}
	ct, err := e.CompiledTask(&Call{Task: "t"})
	zz.Assert(err == nil, "no-error")
	if err != nil {
		return
	}
	environ := env.Get(ct)
	// the last entry for the name is what the shell sees
	got, found := "", false
	for _, kv := range environ {
		if strings.HasPrefix(kv, zzVarName+"=") {
			got, found = strings.TrimPrefix(kv, zzVarName+"="), true
		}
	}
	switch {
	case hProc && !precedence:
		zz.Assert(found && got == pval, "env/process-wins")
	case hTaskEnv:
		zz.Assert(found && got == tval, "env/task-env-wins")
	case hGlobalEnv:
		zz.Assert(found && got == gval, "env/global-env-wins")
	case hProc:
		zz.Assert(found && got == pval, "env/process-value-kept")
	default:
		zz.Assert(!found, "env/undefined")
	}
	if zz.Twin() {
		zz.Assert(false, "twin")
	}
	zz.Reach("end")
}

var _ = experiments.EnvPrecedence
