package task

import (
	"bytes"
	"context"
	"fmt"
	"io"
	"os"
	"strconv"
	"strings"
	"sync"
	"time"

	"mvdan.cc/sh/v3/interp"

	"github.com/go-task/task/v3/errors"
	"github.com/go-task/task/v3/internal/execext"
	"github.com/go-task/task/v3/internal/logger"
	"github.com/go-task/task/v3/internal/output"
	zz "github.com/go-task/task/v3/internal/zzsym"
	"github.com/go-task/task/v3/taskfile/ast"
)

// ---- scheduling kernel K: small task graphs run by the real Executor ----------------------

type zzCmd struct {
	Call        string // task-call target ("" = shell probe)
	Defer       bool
	IgnoreError bool
	Var         string // value passed as variable V in a task call
}

type zzTask struct {
	Name        string
	Deps        []string
	DepVars     []string // value of V passed to the dep with the same index ("" = none)
	Cmds        []zzCmd
	Run         string
	IgnoreError bool
	Internal    bool
	File        string // Location.Taskfile ("" = /d/f.yml)
	EnvFromV    bool   // env: {E: V}   (binding reaches only the environment)
	VarsFromV   bool   // vars: {W: V}
}

type zzGraph struct {
	Tasks []zzTask
	exit  map[string]uint8 // probe id -> exit status (0 success)
}

func (g *zzGraph) task(name string) *zzTask {
	for k := range g.Tasks {
		if g.Tasks[k].Name == name {
			return &g.Tasks[k]
		}
	}
	return nil
}

func zzProbeID(task string, k int) string { return task + "." + strconv.Itoa(k) }

// zzMayFail decides symbolically whether probe id fails and with which status.
// zzFixedCode, when non-zero, is the status every failing probe exits with (used where
// the status must appear in rendered text).
var zzFixedCode uint8

func zzMayFail(id string) uint8 {
	if zz.Bool("fail." + id) {
		if zzFixedCode != 0 {
			return zzFixedCode
		}
		c := zz.Uint8("code." + id)
		zz.Assume(c != 0)
		return c
	}
	return 0
}

func zzCmdText(id string, code uint8) string {
	if zz.Native() {
		if zzProbeSleep { // the probe lasts long enough for independent probes to be seen overlapping
			return fmt.Sprintf("echo S:%s; sleep 0.05; echo F:%s:%d; exit %d", id, id, code, code)
		}
		return fmt.Sprintf("echo S:%s; echo F:%s:%d; exit %d", id, id, code, code)
	}
	return "probe " + id
}

var zzProbeSleep bool

func (g *zzGraph) build(failing func(id string) bool) *ast.Taskfile {
	g.exit = map[string]uint8{}
	tf := &ast.Taskfile{Vars: ast.NewVars(), Env: ast.NewVars(), Tasks: ast.NewTasks(), Run: "always", Method: "checksum"}
	for _, s := range g.Tasks {
		file := s.File
		if file == "" {
			file = "/d/f.yml"
		}
		t := &ast.Task{Task: s.Name, Run: s.Run, IgnoreError: s.IgnoreError, Internal: s.Internal,
			Location: &ast.Location{Taskfile: file}, Vars: ast.NewVars(), Env: ast.NewVars()}
		if s.EnvFromV {
			t.Env.Set("E", ast.Var{Value: "{{.V}}"})
		}
		if s.VarsFromV {
			t.Vars.Set("W", ast.Var{Value: "{{.V}}"})
		}
		for k, d := range s.Deps {
			dep := &ast.Dep{Task: d}
			if k < len(s.DepVars) && s.DepVars[k] != "" {
				dep.Vars = ast.NewVars()
				dep.Vars.Set("V", ast.Var{Value: s.DepVars[k]})
			}
			t.Deps = append(t.Deps, dep)
		}
		for k, c := range s.Cmds {
			cmd := &ast.Cmd{Defer: c.Defer, IgnoreError: c.IgnoreError}
			if c.Call != "" {
				cmd.Task = c.Call
				if c.Var != "" {
					cmd.Vars = ast.NewVars()
					cmd.Vars.Set("V", ast.Var{Value: c.Var})
				}
			} else {
				id := zzProbeID(s.Name, k)
				var code uint8
				if failing == nil || failing(id) {
					code = zzMayFail(id)
				}
				g.exit[id] = code
				cmd.Cmd = zzCmdText(id, code)
			}
			t.Cmds = append(t.Cmds, cmd)
		}
		tf.Tasks.Set(s.Name, t)
	}
	return tf
}

var zzGraphCur *zzGraph

// zzSuffix: the rendered text that followed "#" in a probe command (by probe id).
var zzSuffix = map[string]string{}

// zzProbe is the shell of the symbolic run: a command is a probe that reports its
// start and finish (with exit status) on the observation trace; a command whose
// context is already cancelled does not start, one whose context is cancelled
// while it runs is killed.
func zzProbe(ctx context.Context, opts *execext.RunCommandOptions) error {
	if strings.HasPrefix(opts.Command, "pre ") { // a precondition command
		zzPreDir = opts.Dir
		zz.Emit("G", strings.TrimPrefix(opts.Command, "pre "), 0) // evaluating a guard takes time: a scheduling point
		if err := ctx.Err(); err != nil {
			return err
		}
		if zzPreFail {
			return interp.NewExitStatus(1)
		}
		return nil
	}
	id := strings.TrimPrefix(opts.Command, "probe ")
	suffix := ""
	if k := strings.Index(id, "#"); k >= 0 {
		id, suffix = id[:k], id[k+1:] // deferred commands carry rendered text after the id
	}
	if suffix != "" {
		zzSuffix[id] = suffix
	}
	if err := ctx.Err(); err != nil {
		return err
	}
	zz.Emit("S", id, 0)
	st := zzGraphCur.exit[id]
	if err := ctx.Err(); err != nil {
		zz.Emit("K", id, 0)
		return err
	}
	zz.Emit("F", id, int(st))
	if st != 0 {
		return interp.NewExitStatus(st)
	}
	return nil
}

// zzSink (native replay) receives the probes' output; each line is an event. The
// write of the k-th event of the counterexample's trace is held back until k*step
// after the start, which steers the real schedule towards the counterexample.
type zzSink struct {
	mu    sync.Mutex
	buf   bytes.Buffer
	t0    time.Time
	rank  map[string][]int
	seen  map[string]int
	step  time.Duration
	last  int
	extra io.Writer
}

func (s *zzSink) Write(p []byte) (int, error) {
	s.mu.Lock()
	s.buf.Write(p)
	var lines []string
	for {
		b := s.buf.Bytes()
		k := bytes.IndexByte(b, '\n')
		if k < 0 {
			break
		}
		lines = append(lines, string(b[:k]))
		s.buf.Next(k + 1)
	}
	s.mu.Unlock()
	for _, l := range lines {
		// "S:<id>" or "F:<id>:<status>" / "X:<id>:<value>"; ids may contain ':'
		l = strings.TrimSpace(l)
		if len(l) < 3 || l[1] != ':' || (l[0] != 'S' && l[0] != 'F' && l[0] != 'X') {
			continue
		}
		f := []string{l[:1], l[2:]}
		if l[0] != 'S' {
			if k := strings.LastIndex(l[2:], ":"); k >= 0 {
				f = []string{l[:1], l[2 : 2+k], l[2+k+1:]}
			}
		}
		key := f[0] + " " + f[1]
		s.mu.Lock()
		n := s.seen[key]
		s.seen[key]++
		// events the counterexample does not contain (e.g. the finish of a command
		// that is still running at its end) are held back until after its last event
		due := time.Duration(s.last+2) * s.step
		if rs := s.rank[key]; n < len(rs) {
			due = time.Duration(rs[n]) * s.step
		}
		s.mu.Unlock()
		if due >= 0 {
			if d := due - time.Since(s.t0); d > 0 {
				time.Sleep(d)
			}
		}
		val := 0
		if len(f) >= 3 {
			val, _ = strconv.Atoi(f[2])
		}
		zz.Emit(f[0], f[1], val)
	}
	return len(p), nil
}

// zzSinkStep: the steering delay per event (0: events pass straight through).
var zzSinkStep = 25 * time.Millisecond

func zzNewSink() *zzSink {
	s := &zzSink{t0: time.Now(), rank: map[string][]int{}, seen: map[string]int{}, step: zzSinkStep}
	n := 0
	for _, l := range zz.ModelTrace() {
		// "g3 S A.0 0"
		f := strings.Fields(l)
		if len(f) >= 3 && (f[1] == "S" || f[1] == "F") {
			n++
			s.rank[f[1]+" "+f[2]] = append(s.rank[f[1]+" "+f[2]], n)
		}
	}
	s.last = n
	return s
}

type zzRunOpts struct {
	Concurrency int
	Parallel    bool
	Dry         bool
	Force       bool
	ForceAll    bool
	AssumeYes   bool
}

func zzQuietLogger() *logger.Logger { return &logger.Logger{Stdout: io.Discard, Stderr: io.Discard} }

var zzPreFail bool

// zzPreDir: the directory the last precondition command was run in
var zzPreDir string

func zzPreText() string {
	if zz.Native() {
		return "exit 1"
	}
	return "pre G"
}

// zzExec runs the calls on a fresh Executor over the graph and returns the trace.
func zzExec(g *zzGraph, tf *ast.Taskfile, o zzRunOpts, roots ...string) ([]zz.Event, error) {
	return zzExecOpts(g, tf, o, false, roots...)
}

// zzExecWithShell is zzExec with a shell that handles some commands itself.
func zzExecWithShell(g *zzGraph, tf *ast.Taskfile, shell func(context.Context, *execext.RunCommandOptions) error, roots ...string) ([]zz.Event, error) {
	zzShellOverride = shell
	defer func() { zzShellOverride = nil }()
	return zzExecOpts(g, tf, zzRunOpts{}, false, roots...)
}

var zzShellOverride func(context.Context, *execext.RunCommandOptions) error

func zzExecOpts(g *zzGraph, tf *ast.Taskfile, o zzRunOpts, terminal bool, roots ...string) ([]zz.Event, error) {
	zzGraphCur = g
	zzRun = zzProbe
	if zzShellOverride != nil {
		zzRun = zzShellOverride
	}
	zzEnviron = []string{"HOME=/h"}
	before := len(zz.Trace()) // the events of this invocation only
	var out io.Writer = io.Discard
	if zz.Native() {
		out = zzNewSink()
	}
	e := &Executor{Taskfile: tf, Concurrency: o.Concurrency, Parallel: o.Parallel, Dry: o.Dry, Force: o.Force, ForceAll: o.ForceAll,
		AssumeYes: o.AssumeYes, Stdout: out, Stderr: io.Discard, Stdin: strings.NewReader(""), Output: output.Interleaved{}, Silent: true}
	e.Logger = &logger.Logger{Stdout: io.Discard, Stderr: io.Discard, AssumeYes: o.AssumeYes, AssumeTerm: terminal, Stdin: strings.NewReader(zzPromptLine)}
	e.Compiler = &Compiler{Dir: "", TaskfileEnv: tf.Env, TaskfileVars: tf.Vars, Logger: e.Logger}
	e.setupConcurrencyState()
	var calls []*Call
	for _, r := range roots {
		calls = append(calls, &Call{Task: r})
	}
	if zz.Native() {
		// watchdog: a run that does not return is a deadlock (reported to the replay)
		done := make(chan error, 1)
		go func() { done <- e.Run(context.Background(), calls...) }()
		select {
		case err := <-done:
			return zz.Trace()[before:], err
		case <-time.After(8 * time.Second):
			fmt.Println("ZZ-TIMEOUT the invocation did not terminate")
			return zz.Trace()[before:], fmt.Errorf("zz: did not terminate")
		}
	}
	err := e.Run(context.Background(), calls...)
	return zz.Trace()[before:], err
}

// ---- trace queries -------------------------------------------------------------------------

func zzIndex(tr []zz.Event, kind, id string, nth int) int {
	n := 0
	for k, e := range tr {
		if e.Kind == kind && e.ID == id {
			if n == nth {
				return k
			}
			n++
		}
	}
	return -1
}

func zzCount(tr []zz.Event, kind, id string) int {
	n := 0
	for _, e := range tr {
		if e.Kind == kind && e.ID == id {
			n++
		}
	}
	return n
}

func zzTaskOf(id string) string { return id[:strings.LastIndex(id, ".")] }

// zzDoneOK: before position upto, task name has completed successfully: every
// non-deferred shell command of it finished with status 0 (or its failure is
// ignored), its task calls and deps likewise (recursively).
func zzDoneOK(g *zzGraph, tr []zz.Event, name string, upto int, depth int) bool {
	t := g.task(name)
	if t == nil || depth > 6 {
		return true
	}
	for _, d := range t.Deps {
		if !zzDoneOK(g, tr, d, upto, depth+1) {
			return false
		}
	}
	for k, c := range t.Cmds {
		if c.Defer {
			continue
		}
		if c.Call != "" {
			if !c.IgnoreError && !t.IgnoreError && !zzDoneOK(g, tr, c.Call, upto, depth+1) {
				return false
			}
			continue
		}
		id := zzProbeID(name, k)
		f := zzIndex(tr, "F", id, 0)
		if f < 0 || f >= upto {
			return false
		}
		if tr[f].Val != 0 && !c.IgnoreError && !t.IgnoreError {
			return false
		}
	}
	return true
}

// ---- shapes --------------------------------------------------------------------------------

var zzRunModes = []string{"", "always", "once", "when_changed"}

func zzShape(n int) (*zzGraph, []string, bool) {
	probe := zzCmd{}
	switch n {
	case 0: // chain R -> A -> B
		return &zzGraph{Tasks: []zzTask{
			{Name: "R", Deps: []string{"A"}, Cmds: []zzCmd{probe, probe}},
			{Name: "A", Deps: []string{"B"}, Cmds: []zzCmd{probe}},
			{Name: "B", Cmds: []zzCmd{probe}},
		}}, []string{"R"}, false
	case 1: // fan-out
		return &zzGraph{Tasks: []zzTask{
			{Name: "R", Deps: []string{"A", "B"}, Cmds: []zzCmd{probe}},
			{Name: "A", Cmds: []zzCmd{probe, probe}},
			{Name: "B", Cmds: []zzCmd{probe}},
		}}, []string{"R"}, false
	case 2: // diamond on a shared (deduplicated) task
		return &zzGraph{Tasks: []zzTask{
			{Name: "R", Deps: []string{"A", "B"}, Cmds: []zzCmd{probe}},
			{Name: "A", Deps: []string{"S"}, Cmds: []zzCmd{probe}},
			{Name: "B", Deps: []string{"S"}, Cmds: []zzCmd{probe}},
			{Name: "S", Run: zzRunModes[zz.Choose("run.S", 4)], Cmds: []zzCmd{probe}},
		}}, []string{"R"}, false
	case 3: // two --parallel roots sharing a dependency
		return &zzGraph{Tasks: []zzTask{
			{Name: "A", Deps: []string{"S"}, Cmds: []zzCmd{probe}},
			{Name: "B", Deps: []string{"S"}, Cmds: []zzCmd{probe}},
			{Name: "S", Run: zzRunModes[zz.Choose("run.S", 4)], Cmds: []zzCmd{probe}},
		}}, []string{"A", "B"}, true
	case 4: // shared run-once dependency whose first caller has a slow sibling dependency
		return &zzGraph{Tasks: []zzTask{
			{Name: "R", Deps: []string{"A", "B"}},
			{Name: "A", Deps: []string{"S", "X"}, Cmds: []zzCmd{probe}},
			{Name: "B", Deps: []string{"S"}, Cmds: []zzCmd{probe}},
			{Name: "X", Cmds: []zzCmd{probe}},
			{Name: "S", Run: "once", Cmds: []zzCmd{probe}},
		}}, []string{"R"}, false
	case 6: // the first caller's failure is swallowed; a later, sequential dependent of the shared task
		return &zzGraph{Tasks: []zzTask{
			{Name: "R", IgnoreError: true, Cmds: []zzCmd{{Call: "P"}, {Call: "Q"}}},
			{Name: "P", Deps: []string{"S", "F"}},
			{Name: "Q", Deps: []string{"S"}, Cmds: []zzCmd{probe}},
			{Name: "F", Cmds: []zzCmd{probe}},
			{Name: "S", Run: "once", IgnoreError: zz.Bool("ignore.S"), Cmds: []zzCmd{probe}},
		}}, []string{"R"}, false
	case 7: // two different deduplicated dependencies whose names end alike
		return &zzGraph{Tasks: []zzTask{
			{Name: "R", Deps: []string{"docker:build", "npm:build"}, Cmds: []zzCmd{probe}},
			{Name: "docker:build", Run: "once", Cmds: []zzCmd{probe}},
			{Name: "npm:build", Run: "once", Cmds: []zzCmd{probe}},
		}}, []string{"R"}, false
	case 5: // dependency + nested call of the same shared task
		return &zzGraph{Tasks: []zzTask{
			{Name: "R", Deps: []string{"A", "B"}},
			{Name: "A", Deps: []string{"S"}},
			{Name: "B", Cmds: []zzCmd{{Call: "S"}, probe}},
			{Name: "S", Run: "once", Cmds: []zzCmd{probe}},
		}}, []string{"R"}, false
	}
	return nil, nil, false
}

// zzFailingDefault: which probes may fail in the quick tier (all of them unless the
// harness parameter "failing" restricts it to the first n probes in table order).
func zzFailingDefault(g *zzGraph) func(id string) bool {
	limit := zz.Param("failing", 99)
	seen := 0
	allowed := map[string]bool{}
	for ti := len(g.Tasks) - 1; ti >= 0; ti-- { // leaves (listed last) first
		t := g.Tasks[ti]
		for k, c := range t.Cmds {
			if c.Call == "" {
				if seen < limit {
					allowed[zzProbeID(t.Name, k)] = true
				}
				seen++
			}
		}
	}
	return func(id string) bool { return allowed[id] }
}

// ---- C01: dependencies finish successfully before a task's commands start -----------------

func zzCheckC01(g *zzGraph, tr []zz.Event) {
	for pos, ev := range tr {
		if ev.Kind != "S" {
			continue
		}
		t := g.task(zzTaskOf(ev.ID))
		if t == nil {
			continue
		}
		for _, d := range t.Deps {
			zz.Assert(zzDoneOK(g, tr, d, pos, 0), "deps-finished-successfully-before-command-start/"+t.Name+"<-"+d)
		}
	}
}

// zzCheckAllWorkDone: when no command fails, the run succeeds and every command of
// every task reachable from the roots has run (vacuity guard of the kernel harnesses).
func zzCheckAllWorkDone(g *zzGraph, tr []zz.Event, err error, roots []string) {
	anyFail := false
	for _, c := range g.exit {
		if c != 0 {
			anyFail = true
		}
	}
	if anyFail {
		return
	}
	zz.Assert(err == nil, "run-succeeds-when-nothing-fails")
	for _, r := range roots {
		zz.Assert(zzDoneOK(g, tr, r, len(tr), 0), "all-required-work-done/"+r)
	}
}

func ZZ_C01_Deps() {
	g, roots, par := zzShape(zz.Param("shape", 0))
	tf := g.build(zzFailingDefault(g))
	tr, err := zzExec(g, tf, zzRunOpts{Concurrency: zz.Choose("concurrency", zz.Param("maxconc", 2)+1), Parallel: par}, roots...)
	if err != nil {
		zz.Note("run error: " + err.Error())
	}
	zzCheckC01(g, tr)
	zzCheckAllWorkDone(g, tr, err, roots)
	if zz.Twin() {
		zz.Assert(false, "twin")
	}
	zz.Reach("end")
}

var (
	_ = errors.New
	_ = os.Stderr
)
