package task

import (
	"context"
	"fmt"
	"io"
	"os"
	"strings"

	"mvdan.cc/sh/v3/interp"

	"github.com/go-task/task/v3/internal/execext"
	"github.com/go-task/task/v3/internal/output"
	zz "github.com/go-task/task/v3/internal/zzsym"
	"github.com/go-task/task/v3/taskfile/ast"
)

// ZZ_C14_DeferredCall: a defer entry that calls a task. The call is made in the scope of the
// deferring task: its name and the variables it passes are rendered there (task vars over
// global vars), and they see .EXIT_CODE of the failing command, like a deferred command does.
func ZZ_C14_DeferredCall() {
	fails := zz.Bool("command_fails")
	gv, tv := zz.Str("global_value", 2, "ab"), zz.Str("task_value", 2, "ab")
	zz.Assume(gv != tv && gv != "" && tv != "")
	taskDefines := zz.Bool("task_defines_the_variable")
	zzRecorded = nil
	zzRun = func(ctx context.Context, opts *execext.RunCommandOptions) error {
		zzRecorded = append(zzRecorded, opts.Command)
		if opts.Command == "work" && fails {
			return interp.NewExitStatus(3)
		}
		return nil
	}
	zzEnviron = []string{"HOME=/h"}
	tf := &ast.Taskfile{Vars: ast.NewVars(), Env: ast.NewVars(), Tasks: ast.NewTasks(), Run: "always", Method: "checksum"}
	tf.Vars.Set("G", ast.Var{Value: gv})
	callVars := ast.NewVars()
	callVars.Set("P", ast.Var{Value: "{{.G}}"})
	callVars.Set("CODE", ast.Var{Value: "{{.EXIT_CODE}}"})
	work := "work"
	if zz.Native() {
		work = "true"
		if fails {
			work = "exit 3"
		}
	}
	t := &ast.Task{Task: "t", Location: &ast.Location{Taskfile: "/d/f.yml"}, Vars: ast.NewVars(), Env: ast.NewVars(),
		Cmds: []*ast.Cmd{{Task: "callee", Vars: callVars, Defer: true}, {Cmd: work}}}
	if zz.Bool("a_later_deferred_entry_fails_to_render") {
		// registered after the call, so it runs before it: its rendering error is its own
		// (q wants a string, L is a list) and must not reach the entries that run after it
		t.Vars.Set("L", ast.Var{Value: []any{"x"}})
		t.Cmds = []*ast.Cmd{t.Cmds[0], {Cmd: "echo {{q .L}}", Defer: true}, t.Cmds[1]}
	}
	if taskDefines {
		t.Vars.Set("G", ast.Var{Value: tv})
	}
	callee := &ast.Task{Task: "callee", Location: &ast.Location{Taskfile: "/d/f.yml"}, Vars: ast.NewVars(), Env: ast.NewVars(),
		Cmds: []*ast.Cmd{{Cmd: "echo got {{.P}} code={{.CODE}}"}}}
	tf.Tasks.Set("t", t)
	tf.Tasks.Set("callee", callee)
	root := "t"
	if zz.Bool("tasks_come_from_a_namespaced_include") {
		// the deferred call names a task of its own file: it is namespaced like any other call
		merged := ast.NewTasks()
		if err := merged.Merge(tf.Tasks, &ast.Include{Namespace: "ns"}, nil); err != nil {
			zz.Assert(false, "merge-must-not-fail")
			return
		}
		tf.Tasks = merged
		root = "ns:t"
	}
	sink := &zzLineSink{}
	e := &Executor{Taskfile: tf, Stdout: sink, Stderr: io.Discard, Stdin: strings.NewReader(""), Silent: true, Output: output.Interleaved{}}
	e.Logger = zzQuietLogger()
	e.Compiler = &Compiler{Dir: "", TaskfileEnv: tf.Env, TaskfileVars: tf.Vars, Logger: e.Logger}
	e.setupConcurrencyState()
	err := e.Run(context.Background(), &Call{Task: root})
	zz.Assert((err != nil) == fails, "outcome-is-the-commands")
	want := "echo got " + gv
	if taskDefines {
		want = "echo got " + tv
	}
	if fails {
		want += " code=3"
	} else {
		want += " code="
	}
	got := ""
	if zz.Native() {
		for _, l := range strings.Split(sink.raw, "\n") {
			if strings.HasPrefix(l, "got ") {
				got = "echo " + l
			}
		}
	} else {
		for _, c := range zzRecorded {
			if strings.HasPrefix(c, "echo got ") {
				got = c
			}
		}
	}
	zz.Note(fmt.Sprintf("deferred call ran %q, expected %q (run: %v)", got, want, err))
	zz.Assert(got == want, "deferred-task-call-passes-the-deferring-tasks-values-and-EXIT_CODE")
	if zz.Twin() {
		zz.Assert(false, "twin")
	}
	zz.Reach("end")
}

// ZZ_C02_PassedData: "variables passed in a call are the ones the callee sees", for a value
// that is data: the output of a dynamic variable of the caller (symbolic text over braces,
// dots and a letter), passed on as `vars: {V: '{{.DATA}}'}`. The caller renders the call's
// variables once; the callee must see exactly that text.
func ZZ_C02_PassedData() {
	d := zz.Str("output_of_the_dynamic_variable", 4, "{}.a")
	zz.Assume(d != "")
	zzRun = func(ctx context.Context, opts *execext.RunCommandOptions) error {
		if opts.Command == "emit" && opts.Stdout != nil {
			_, _ = io.WriteString(opts.Stdout, d+"\n")
		}
		return nil
	}
	zzEnviron = []string{"HOME=/h"}
	emit := "emit"
	if zz.Native() {
		os.Setenv("ZZDATA", d)
		defer os.Unsetenv("ZZDATA")
		emit = `printf '%s\n' "$ZZDATA"`
	}
	tf := &ast.Taskfile{Vars: ast.NewVars(), Env: ast.NewVars(), Tasks: ast.NewTasks(), Run: "always", Method: "checksum"}
	callVars := ast.NewVars()
	callVars.Set("V", ast.Var{Value: "{{.DATA}}"})
	t := &ast.Task{Task: "t", Location: &ast.Location{Taskfile: "/d/f.yml"}, Vars: ast.NewVars(), Env: ast.NewVars(),
		Cmds: []*ast.Cmd{{Task: "callee", Vars: callVars}}}
	t.Vars.Set("DATA", ast.Var{Sh: &emit})
	callee := &ast.Task{Task: "callee", Location: &ast.Location{Taskfile: "/d/f.yml"}, Vars: ast.NewVars(), Env: ast.NewVars(),
		Cmds: []*ast.Cmd{{Cmd: "got {{.V}}"}}}
	tf.Tasks.Set("t", t)
	tf.Tasks.Set("callee", callee)
	e := &Executor{Taskfile: tf, Stdout: io.Discard, Stderr: io.Discard}
	e.Logger = zzQuietLogger()
	e.Compiler = &Compiler{Dir: "", TaskfileEnv: tf.Env, TaskfileVars: tf.Vars, Logger: e.Logger}
	ct, err := e.CompiledTask(&Call{Task: "t"})
	zz.Assert(err == nil && ct != nil && len(ct.Cmds) == 1, "compiles")
	if err != nil || ct == nil || len(ct.Cmds) != 1 {
		return
	}
	pv, _ := ct.Cmds[0].Vars.Get("V")
	ps, _ := pv.Value.(string)
	zz.Assert(ps == d, "call-vars/the-data-is-what-the-caller-passes")
	sub, err := e.CompiledTask(&Call{Task: "callee", Vars: ct.Cmds[0].Vars, Indirect: true})
	zz.Note(fmt.Sprintf("passed %q, callee compiled: %v", d, err))
	zz.Assert(err == nil && sub != nil && len(sub.Cmds) == 1 && sub.Cmds[0].Cmd == "got "+d, "call-vars/seen-by-callee-as-passed")
	if zz.Twin() {
		zz.Assert(false, "twin")
	}
	zz.Reach("end")
}
