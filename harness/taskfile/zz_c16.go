package taskfile

import (
	"io"
	"net/url"
	"strings"

	zz "github.com/go-task/task/v3/internal/zzsym"
)

// ---- stubs (symbolic run only) -----------------------------------------------------------

var zzURL *url.URL

// giturls.Parse (regexp-based URL recognition) is not encoded: it returns a URL
// whose scheme and path are the harness' symbolic values.
//
//gosmt:stub github.com/chainguard-dev/git-urls.Parse
func zzGitParse(rawurl string) (*url.URL, error) { return zzURL, nil }

//gosmt:stub (*net/url.URL).String
func zzURLString(u *url.URL) string { return u.Scheme + "://" + u.Host + u.Path }

//gosmt:stub (*net/url.URL).Query
func zzURLQuery(u *url.URL) url.Values { return url.Values{} }

// The syntax highlighter is not encoded; contract: it writes one output line per
// input line (here: the input itself).
//
//gosmt:stub github.com/alecthomas/chroma/v2/quick.Highlight
func zzHighlight(w io.Writer, source, lexer, formatter, style string) error {
	_, err := io.WriteString(w, source+strings.Repeat("\n", zzExtraLines))
	return err
}

// zzExtraLines: the highlighter normalises other line terminators to "\n", so its
// output can have more lines than the raw text split at "\n".
var zzExtraLines int

func zzGitEntrypoint(scheme, path string) string { return scheme + "://github.com" + path }

// ZZ_C16_GitNode: no include location makes NewGitNode / getScheme panic.
func ZZ_C16_GitNode() {
	schemes := []string{"https", "http", "ssh", "git"}
	scheme := schemes[zz.Choose("scheme", len(schemes))]
	path := zz.Str("path", 6, "a/.git")
	insecure := zz.Bool("insecure")
	entry := zzGitEntrypoint(scheme, path)
	if zz.Native() {
		zz.Note("entrypoint=" + entry)
	} else {
		zzURL = &url.URL{Scheme: scheme, Host: "github.com", Path: path}
	}
	_, _ = getScheme(entry)
	n, err := NewGitNode(entry, "", insecure)
	if err == nil && n != nil {
		_ = n.Location()
	}
	if zz.Twin() {
		zz.Assert(false, "twin")
	}
	zz.Reach("end")
}

// ZZ_C16_Snippet: rendering the source snippet of a decode error never panics,
// for every file length, with or without trailing newline, and every position
// (line 0 = unknown; possibly beyond the end).
func ZZ_C16_Snippet() {
	n := zz.Choose("nlines", 7)
	trailing := zz.Bool("trailing_newline")
	src := strings.Repeat("xy\n", n)
	if !trailing && n > 0 {
		src = src[:len(src)-1]
	}
	// the position comes from the YAML decoder, which also counts "\r" and other
	// line terminators: it may lie beyond the number of "\n"-separated lines
	line := zz.Choose("line", 10)
	col := zz.Choose("column", 5)
	pad := zz.Choose("padding", 4)
	zzExtraLines = zz.Choose("highlighter_extra_lines", 3)
	zz.Assume(zzExtraLines <= n) // each extra line comes from a stray CR inside one of the n lines
	if zz.Native() && zzExtraLines > 0 {
		// natively: stray CR line breaks make chroma emit more lines than strings.Split sees
		src = strings.Replace(src, "xy\n", "x\ry\n", zzExtraLines)
	}
	s := NewSnippet([]byte(src), WithLine(line), WithColumn(col), WithPadding(pad))
	_ = s.String()
	if zz.Twin() {
		zz.Assert(false, "twin")
	}
	zz.Reach("end")
}
