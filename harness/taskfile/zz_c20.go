package taskfile

import (
	"context"
	stderrors "errors"
	"fmt"
	"io/fs"
	"net/http"
	"net/http/httptest"
	"os"
	"strconv"
	"time"

	"github.com/go-task/task/v3/errors"
	zz "github.com/go-task/task/v3/internal/zzsym"
)

// ---- environment model (symbolic run only) ------------------------------------------------

var (
	zzFiles map[string]string // cache directory contents
	zzNowS  int64             // logical clock in whole seconds
)

//gosmt:stub os.ReadFile
func zzReadFile(name string) ([]byte, error) {
	if c, ok := zzFiles[name]; ok {
		return []byte(c), nil
	}
	return nil, fs.ErrNotExist
}

//gosmt:stub os.WriteFile
func zzWriteFile(name string, data []byte, perm os.FileMode) error {
	zzFiles[name] = string(data)
	return nil
}

//gosmt:stub os.TempDir
func zzTempDir() string { return "/tmp" }

//gosmt:stub os.MkdirAll
func zzMkdirAll(path string, perm os.FileMode) error { return nil }

//gosmt:stub time.Now
func zzTimeNow() time.Time { return time.Unix(zzNowS, 0) }

// Instants are whole seconds: RFC3339 formatting/parsing (sub-second truncation) is
// replaced by the decimal second count.
//
//gosmt:stub (time.Time).Format
func zzTimeFormat(t time.Time, layout string) string { return strconv.FormatInt(t.Unix(), 10) }

//gosmt:stub time.Parse
func zzTimeParse(layout, value string) (time.Time, error) {
	n, err := strconv.ParseInt(value, 10, 64)
	if err != nil {
		return time.Time{}, err
	}
	return time.Unix(n, 0), nil
}

// sha256 is modelled as an injective function of the content.
//
//gosmt:stub github.com/go-task/task/v3/taskfile.checksum
func zzSha(b []byte) string { return "sha(" + string(b) + ")" }

// zzRemote is the remote Taskfile: the server state of the current invocation
// decides what ReadContext answers.
type zzRemote struct {
	*BaseNode
	state   int // 0 serves content, 1 refuses the connection, 2 too slow (times out)
	content string
	url     string
}

func (n *zzRemote) Read() ([]byte, error)                           { return n.ReadContext(context.Background()) }
func (n *zzRemote) Location() string                                { return n.url }
func (n *zzRemote) ResolveEntrypoint(e string) (string, error)      { return e, nil }
func (n *zzRemote) ResolveDir(d string) (string, error)             { return d, nil }
func (n *zzRemote) CacheKey() string                                { return "remote.key" }
func (n *zzRemote) ReadContext(ctx context.Context) ([]byte, error) {
	switch n.state {
	case 1:
		return nil, &errors.TaskfileFetchFailedError{URI: n.url, HTTPStatusCode: 0}
	case 2:
		return nil, ctx.Err()
	}
	return []byte(n.content), nil
}


// ZZ_C20_Cache: over histories of invocations against a persistent cache: the bytes
// handed on for execution always have a checksum the user approved (interactively
// or with --yes); unapproved new or changed content ends with error class 104 and
// changes nothing; an approved copy stays usable when the network is unavailable or
// --offline is given.
func ZZ_C20_Cache() {
	zzContents := []string{"version-A", "version-B"}
	steps := zz.Param("steps", 2)
	var srv *httptest.Server
	var tmp string
	serverState, serverContent := 0, ""
	if zz.Native() {
		tmp, _ = os.MkdirTemp("", "zzc20")
		defer os.RemoveAll(tmp)
		srv = httptest.NewServer(http.HandlerFunc(func(w http.ResponseWriter, r *http.Request) {
			switch serverState {
			case 1:
				hj, _ := w.(http.Hijacker)
				c, _, _ := hj.Hijack()
				c.Close()
			case 2:
				time.Sleep(400 * time.Millisecond)
				fmt.Fprint(w, serverContent)
			default:
				fmt.Fprint(w, serverContent)
			}
		}))
		defer srv.Close()
	} else {
		zzFiles = map[string]string{}
		zzNowS = 1000
	}
	approved := map[string]bool{} // contents the user has approved so far
	cachedApproved := ""          // approved content currently held by the cache ("" none)
	hasCache := false
	expiry := []time.Duration{0, 50 * time.Second}[zz.Choose("expiry", 2)]
	for k := 0; k < steps; k++ {
		state := zz.Choose(fmt.Sprintf("server%d", k), 3)
		content := zzContents[zz.Choose(fmt.Sprintf("content%d", k), 2)]
		offline := zz.Bool(fmt.Sprintf("offline%d", k))
		download := zz.Bool(fmt.Sprintf("download%d", k))
		yes := zz.Bool(fmt.Sprintf("yes%d", k))
		answerYes := zz.Bool(fmt.Sprintf("answer_yes%d", k))
		zz.Assume(!(offline && download)) // rejected by flags.Validate
		prompted := false
		r := NewReader(WithOffline(offline), WithDownload(download), WithCacheExpiryDuration(expiry),
			WithPromptFunc(func(string) error {
				prompted = true
				if yes || answerYes {
					return nil
				}
				return stderrors.New("declined")
			}))
		var node RemoteNode
		ctx := context.Background()
		var cancel context.CancelFunc = func() {}
		if zz.Native() {
			serverState, serverContent = state, content
			r.tempDir = tmp
			hn, err := NewHTTPNode(srv.URL+"/Taskfile.yml", "", true)
			if err != nil {
				fmt.Println("ZZ-NOTE", err)
				return
			}
			node = hn
			to := 3 * time.Second
			if state == 2 {
				to = 150 * time.Millisecond
			}
			ctx, cancel = context.WithTimeout(ctx, to)
			if k > 0 {
				time.Sleep(1100 * time.Millisecond) // RFC3339 timestamps have second resolution
			}
		} else {
			r.tempDir = "/cache"
			node = &zzRemote{BaseNode: NewBaseNode(""), state: state, content: content, url: "https://host/Taskfile.yml"}
			if state == 2 {
				ctx, cancel = context.WithCancel(ctx)
				cancel() // the request runs into --timeout
			}
			zzNowS += 1 + int64(zz.Choose(fmt.Sprintf("elapsed%d", k), 2))*100
		}
		got, err := r.readRemoteNodeContent(ctx, node)
		cancel()
		if zz.Native() {
			fmt.Printf("ZZ-NOTE step %d state=%d offline=%v download=%v yes=%v -> got=%q err=%v prompted=%v\n", k, state, offline, download, yes, got, err, prompted)
		}
		if err == nil {
			// safety
			zz.Assert(approved[string(got)] || (prompted && (yes || answerYes)) || (string(got) == content && cachedApproved == content && state == 0), "only-approved-content-is-used")
			if prompted && (yes || answerYes) && string(got) == content {
				approved[content] = true
			}
			if state == 0 && string(got) == content && !offline {
				if approved[content] {
					cachedApproved, hasCache = content, true
				}
			}
			zz.Assert(string(got) == content || (hasCache && string(got) == cachedApproved), "returned-bytes-are-the-server's-or-the-cache's")
		} else {
			if prompted && !(yes || answerYes) {
				var nt *errors.TaskfileNotTrustedError
				zz.Assert(stderrors.As(err, &nt) && nt.Code() == errors.CodeTaskfileNotTrusted, "unapproved-content-is-error-104")
			}
			// availability: an approved cached copy keeps the tasks runnable
			if hasCache && (offline || state != 0) {
				zz.Assert(false, fmt.Sprintf("approved-cache-keeps-tasks-runnable/%s", []string{"offline", "connection-refused", "timeout"}[map[bool]int{true: 0, false: state}[offline]]))
			}
			if !hasCache && offline {
				var nf *errors.TaskfileCacheNotFoundError
				zz.Assert(stderrors.As(err, &nf), "offline-without-cache-is-error-106")
			}
		}
	}
	if zz.Twin() {
		zz.Assert(false, "twin")
	}
	zz.Reach("end")
}

// ZZ_C20_Insecure: plain http is refused unless --insecure.
func ZZ_C20_Insecure() {
	schemes := []string{"http", "https"}
	scheme := schemes[zz.Choose("scheme", 2)]
	insecure := zz.Bool("insecure")
	n, err := NewHTTPNode(scheme+"://example.com/Taskfile.yml", "", insecure)
	if scheme == "http" && !insecure {
		var ns *errors.TaskfileNotSecureError
		zz.Assert(n == nil && stderrors.As(err, &ns) && ns.Code() == errors.CodeTaskfileNotSecure, "plain-http-refused-without-insecure")
	} else {
		zz.Assert(err == nil && n != nil, "allowed-scheme-accepted")
	}
	if zz.Twin() {
		zz.Assert(false, "twin")
	}
	zz.Reach("end")
}
