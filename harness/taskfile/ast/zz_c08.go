package ast

import (
	zz "github.com/go-task/task/v3/internal/zzsym"
)

func zzTask(prefix string) *Task {
	return &Task{
		Task:        zz.Str(prefix+"task", 3, "ab:"),
		Label:       zz.Str(prefix+"label", 2, "ab"),
		Desc:        zz.Str(prefix+"desc", 2, "ab"),
		Summary:     zz.Str(prefix+"summary", 2, "ab"),
		Dir:         zz.Str(prefix+"dir", 2, "ab"),
		Method:      zz.Str(prefix+"method", 2, "ab"),
		Prefix:      zz.Str(prefix+"prefix", 2, "ab"),
		Run:         zz.Str(prefix+"run", 2, "ab"),
		Silent:      zz.Bool(prefix + "silent"),
		Interactive: zz.Bool(prefix + "interactive"),
		Internal:    zz.Bool(prefix + "internal"),
		IgnoreError: zz.Bool(prefix + "ignore_error"),
		Watch:       zz.Bool(prefix + "watch"),
		Aliases:     []string{zz.Str(prefix+"alias0", 2, "ab")},
		Deps:        []*Dep{{Task: zz.Str(prefix+"dep0", 3, "ab:"), Silent: zz.Bool(prefix + "dep0silent")}},
		Cmds: []*Cmd{
			{Cmd: zz.Str(prefix+"cmd0", 2, "ab"), IgnoreError: zz.Bool(prefix + "cmd0ign"), Defer: zz.Bool(prefix + "cmd0defer")},
			{Task: zz.Str(prefix+"cmd1task", 3, "ab:"), Silent: zz.Bool(prefix + "cmd1silent")},
		},
		Platforms: []*Platform{{OS: zz.Str(prefix+"os", 2, "ab"), Arch: zz.Str(prefix+"arch", 2, "ab")}},
		Requires:  &Requires{Vars: []*VarsWithValidation{{Name: zz.Str(prefix+"req", 2, "ab")}}},
		Location:  &Location{Line: zz.Int(prefix+"line", 0, 100), Column: zz.Int(prefix+"col", 0, 100), Taskfile: zz.Str(prefix+"file", 2, "ab")},
	}
}

func ZZ_C08_DeepCopy() {
	t := zzTask("t.")
	c := t.DeepCopy()
	zz.Assert(c.Task == t.Task, "Task")
	zz.Assert(c.Label == t.Label, "Label")
	zz.Assert(c.Desc == t.Desc, "Desc")
	zz.Assert(c.Summary == t.Summary, "Summary")
	zz.Assert(c.Dir == t.Dir, "Dir")
	zz.Assert(c.Method == t.Method, "Method")
	zz.Assert(c.Prefix == t.Prefix, "Prefix")
	zz.Assert(c.Run == t.Run, "Run")
	zz.Assert(c.Silent == t.Silent, "Silent")
	zz.Assert(c.Interactive == t.Interactive, "Interactive")
	zz.Assert(c.Internal == t.Internal, "Internal")
	zz.Assert(c.IgnoreError == t.IgnoreError, "IgnoreError")
	zz.Assert(c.Watch == t.Watch, "Watch")
	zz.Assert(len(c.Aliases) == 1 && c.Aliases[0] == t.Aliases[0], "Aliases")
	zz.Assert(len(c.Deps) == 1 && c.Deps[0].Task == t.Deps[0].Task && c.Deps[0].Silent == t.Deps[0].Silent, "Deps")
	zz.Assert(len(c.Cmds) == 2 && c.Cmds[0].Cmd == t.Cmds[0].Cmd && c.Cmds[0].IgnoreError == t.Cmds[0].IgnoreError && c.Cmds[0].Defer == t.Cmds[0].Defer, "Cmds0")
	zz.Assert(c.Cmds[1].Task == t.Cmds[1].Task && c.Cmds[1].Silent == t.Cmds[1].Silent, "Cmds1")
	zz.Assert(c.Platforms[0].OS == t.Platforms[0].OS && c.Platforms[0].Arch == t.Platforms[0].Arch, "Platforms")
	zz.Assert(c.Requires.Vars[0].Name == t.Requires.Vars[0].Name, "Requires")
	zz.Assert(c.Location.Line == t.Location.Line && c.Location.Taskfile == t.Location.Taskfile, "Location")
	zz.Assert(c.Deps[0] != t.Deps[0] && c.Cmds[0] != t.Cmds[0], "fresh-pointers")
}

func ZZ_C08_Merge() {
	t := zzTask("t.")
	name := t.Task
	zz.Assume(name != "" && t.Deps[0].Task != "" && t.Cmds[1].Task != "")
	t2 := NewTasks(&TaskElement{Key: name, Value: t})
	t1 := NewTasks()
	if zz.Bool("parent_has_task") {
		t1.Set(zz.Str("parent_task", 3, "ab:"), &Task{Task: "p"})
	}
	inc := &Include{
		Namespace:      zz.Str("ns", 2, "ab"),
		Internal:       zz.Bool("inc.internal"),
		Flatten:        zz.Bool("inc.flatten"),
		AdvancedImport: zz.Bool("inc.advanced"),
		Dir:            zz.Str("inc.dir", 2, "ab"),
	}
	if zz.Bool("has_exclude") {
		inc.Excludes = []string{zz.Str("exclude0", 3, "ab:")}
	}
	wantInternal := t.Internal || inc.Internal
	depWasRoot := len(t.Deps[0].Task) > 0 && t.Deps[0].Task[0:1] == ":"
	origDep := t.Deps[0].Task
	before := t1.Len()
	err := t1.Merge(t2, inc, NewVars())
	excluded := len(inc.Excludes) == 1 && inc.Excludes[0] == name
	key := name
	if !inc.Flatten {
		if len(name) > 0 && name[0:1] == ":" {
			key = name[1:]
		} else {
			key = inc.Namespace + ":" + name
		}
	}
	if err != nil {
		zz.Reach("merge-error")
		_, clash := t1.Get(key)
		zz.Assert(clash && !excluded, "error-only-on-clash")
		return
	}
	m, ok := t1.Get(key)
	if excluded {
		zz.Reach("excluded")
		zz.Assert(t1.Len() == before, "excluded-not-added")
		return
	}
	zz.Assert(ok, "callable-under-namespaced-name")
	if !ok {
		return
	}
	zz.Reach("merged")
	zz.Assert(t1.Len() == before+1, "nothing-dropped-or-overwritten")
	zz.Assert(m.Internal == wantInternal, "internal-or")
	zz.Assert(m.Watch == t.Watch, "watch-kept")
	zz.Assert(m.Silent == t.Silent && m.Method == t.Method && m.Run == t.Run && m.IgnoreError == t.IgnoreError, "attrs-kept")
	zz.Assert(len(m.Cmds) == 2 && m.Cmds[0].Cmd == t.Cmds[0].Cmd, "cmds-kept")
	if !inc.Flatten {
		if depWasRoot {
			zz.Assert(":"+m.Deps[0].Task == origDep, "root-dep-unprefixed")
		} else {
			zz.Assert(m.Deps[0].Task == inc.Namespace+":"+origDep, "dep-namespaced")
		}
	}
	zz.Assert(t.Deps[0].Task == origDep, "definition-unchanged")
}

