package ast

import (
	zz "github.com/go-task/task/v3/internal/zzsym"
)

func zzTask(prefix string) *Task {
	return &Task{
		Task:        zz.Str(prefix+"task", 3, "ab:"),
		Label:       zz.Str(prefix+"label", 2, "ab"),
		Desc:        zz.Str(prefix+"desc", 2, "ab"),
		Summary:     zz.Str(prefix+"summary", 2, "ab"),
		Dir:         zz.Str(prefix+"dir", 2, "ab"),
		Method:      zz.Str(prefix+"method", 2, "ab"),
		Prefix:      zz.Str(prefix+"prefix", 2, "ab"),
		Run:         zz.Str(prefix+"run", 2, "ab"),
		Silent:      zz.Bool(prefix + "silent"),
		Interactive: zz.Bool(prefix + "interactive"),
		Internal:    zz.Bool(prefix + "internal"),
		IgnoreError: zz.Bool(prefix + "ignore_error"),
		Watch:       zz.Bool(prefix + "watch"),
		Aliases:     []string{zz.Str(prefix+"alias0", 2, "ab")},
		Deps:        []*Dep{{Task: zz.Str(prefix+"dep0", 3, "ab:"), Silent: zz.Bool(prefix + "dep0silent")}},
		Cmds: []*Cmd{
			{Cmd: zz.Str(prefix+"cmd0", 2, "ab"), IgnoreError: zz.Bool(prefix + "cmd0ign"), Defer: zz.Bool(prefix + "cmd0defer")},
			{Task: zz.Str(prefix+"cmd1task", 3, "ab:"), Silent: zz.Bool(prefix + "cmd1silent")},
		},
		Platforms: []*Platform{{OS: zz.Str(prefix+"os", 2, "ab"), Arch: zz.Str(prefix+"arch", 2, "ab")}},
		Requires:  &Requires{Vars: []*VarsWithValidation{{Name: zz.Str(prefix+"req", 2, "ab")}}},
		Location:  &Location{Line: zz.Int(prefix+"line", 0, 100), Column: zz.Int(prefix+"col", 0, 100), Taskfile: zz.Str(prefix+"file", 2, "ab")},
	}
}

func ZZ_C08_DeepCopy() {
	t := zzTask("t.")
	c := t.DeepCopy()
	zz.Assert(c.Task == t.Task, "Task")
	zz.Assert(c.Label == t.Label, "Label")
	zz.Assert(c.Desc == t.Desc, "Desc")
	zz.Assert(c.Summary == t.Summary, "Summary")
	zz.Assert(c.Dir == t.Dir, "Dir")
	zz.Assert(c.Method == t.Method, "Method")
	zz.Assert(c.Prefix == t.Prefix, "Prefix")
	zz.Assert(c.Run == t.Run, "Run")
	zz.Assert(c.Silent == t.Silent, "Silent")
	zz.Assert(c.Interactive == t.Interactive, "Interactive")
	zz.Assert(c.Internal == t.Internal, "Internal")
	zz.Assert(c.IgnoreError == t.IgnoreError, "IgnoreError")
	zz.Assert(c.Watch == t.Watch, "Watch")
	zz.Assert(len(c.Aliases) == 1 && c.Aliases[0] == t.Aliases[0], "Aliases")
	zz.Assert(len(c.Deps) == 1 && c.Deps[0].Task == t.Deps[0].Task && c.Deps[0].Silent == t.Deps[0].Silent, "Deps")
	zz.Assert(len(c.Cmds) == 2 && c.Cmds[0].Cmd == t.Cmds[0].Cmd && c.Cmds[0].IgnoreError == t.Cmds[0].IgnoreError && c.Cmds[0].Defer == t.Cmds[0].Defer, "Cmds0")
	zz.Assert(c.Cmds[1].Task == t.Cmds[1].Task && c.Cmds[1].Silent == t.Cmds[1].Silent, "Cmds1")
	zz.Assert(c.Platforms[0].OS == t.Platforms[0].OS && c.Platforms[0].Arch == t.Platforms[0].Arch, "Platforms")
	zz.Assert(c.Requires.Vars[0].Name == t.Requires.Vars[0].Name, "Requires")
	zz.Assert(c.Location.Line == t.Location.Line && c.Location.Taskfile == t.Location.Taskfile, "Location")
	zz.Assert(c.Deps[0] != t.Deps[0] && c.Cmds[0] != t.Cmds[0], "fresh-pointers")
	zzCopyIndependence()
	zz.Reach("end")
}

// zzCopyIndependence: the copy keeps the variable maps' contents (sharing of
// structure is asserted only through its observable consequence, see
// ZZ_C08_IncludedTwice).
func zzCopyIndependence() {
	v := zz.Str("ind.value", 2, "ab")
	mk := func() *Vars {
		vs := NewVars()
		vs.Set("K", Var{Value: v})
		return vs
	}
	t := &Task{Task: "t", Vars: mk(), Env: mk(), IncludeVars: mk(), IncludedTaskfileVars: mk(),
		Aliases: []string{"al"}, Dotenv: []string{"de"}, Set: []string{"s"}, Shopt: []string{"so"}, Status: []string{"st"},
		Sources: []*Glob{{Glob: "g"}}, Generates: []*Glob{{Glob: "o"}}, Preconditions: []*Precondition{{Sh: "p"}},
		Platforms: []*Platform{{OS: "os"}}, Requires: &Requires{Vars: []*VarsWithValidation{{Name: "r"}}}, Location: &Location{Taskfile: "f"},
		Cmds: []*Cmd{{Task: "x", Vars: mk()}}, Deps: []*Dep{{Task: "d", Vars: mk()}}}
	c := t.DeepCopy()
	same := func(a, b *Vars) bool {
		x, ok := a.Get("K")
		y, ok2 := b.Get("K")
		xs, _ := x.Value.(string)
		ys, _ := y.Value.(string)
		return ok && ok2 && xs == ys && xs == v
	}
	zz.Assert(same(c.Vars, t.Vars) && same(c.Env, t.Env) && same(c.IncludeVars, t.IncludeVars) && same(c.IncludedTaskfileVars, t.IncludedTaskfileVars), "copy-keeps-variable-maps")
	zz.Assert(same(c.Cmds[0].Vars, t.Cmds[0].Vars) && same(c.Deps[0].Vars, t.Deps[0].Vars), "copy-keeps-call-variables")
	// every field, at every depth (generated comparison: a field added later is covered too)
	full := &Task{Task: "t", Label: "l", Desc: "d", Prompt: []string{"p"}, Summary: "s", Dir: "dir", Method: "m", Prefix: "pre", Run: "once",
		Silent: true, Interactive: true, Internal: true, IgnoreError: true, Watch: true, Namespace: "ns",
		Aliases: []string{"al"}, Dotenv: []string{"de"}, Set: []string{"e"}, Shopt: []string{"g"}, Status: []string{"st"},
		Sources: []*Glob{{Glob: "g", Negate: true}}, Generates: []*Glob{{Glob: "o"}},
		Preconditions: []*Precondition{{Sh: "p", Msg: "m"}}, Platforms: []*Platform{{OS: "os", Arch: "arch"}},
		Requires: &Requires{Vars: []*VarsWithValidation{{Name: "r", Enum: []string{"x", "y"}}}},
		Location: &Location{Line: 3, Column: 4, Taskfile: "f"},
		Cmds: []*Cmd{{Cmd: "c", Task: "x", Silent: true, IgnoreError: true, Defer: true, Set: []string{"e"}, Shopt: []string{"g"},
			Platforms: []*Platform{{OS: "os"}}, For: &For{From: "sources", List: []any{"a"}, Var: "v", Split: ",", As: "as"}, Vars: mk()}},
		Deps: []*Dep{{Task: "d", Silent: true, For: &For{Var: "v"}, Vars: mk()}},
		Vars: mk(), Env: mk(), IncludeVars: mk(), IncludedTaskfileVars: mk()}
	zz.Assert(zz.DeepEqual(full.DeepCopy(), full), "copy-equals-original-in-every-field")
}

func ZZ_C08_Merge() {
	t := zzTask("t.")
	name := t.Task
	zz.Assume(name != "" && t.Deps[0].Task != "" && t.Cmds[1].Task != "")
	t2 := NewTasks(&TaskElement{Key: name, Value: t})
	t1 := NewTasks()
	if zz.Bool("parent_has_task") {
		t1.Set(zz.Str("parent_task", 3, "ab:"), &Task{Task: "p"})
	}
	inc := &Include{
		Namespace:      zz.Str("ns", 2, "ab"),
		Internal:       zz.Bool("inc.internal"),
		Flatten:        zz.Bool("inc.flatten"),
		AdvancedImport: zz.Bool("inc.advanced"),
		Dir:            zz.Str("inc.dir", 2, "ab"),
	}
	if zz.Bool("has_exclude") {
		inc.Excludes = []string{zz.Str("exclude0", 3, "ab:")}
	}
	wantInternal := t.Internal || inc.Internal
	depWasRoot := len(t.Deps[0].Task) > 0 && t.Deps[0].Task[0:1] == ":"
	origDep := t.Deps[0].Task
	before := t1.Len()
	err := t1.Merge(t2, inc, NewVars())
	excluded := len(inc.Excludes) == 1 && inc.Excludes[0] == name
	key := name
	if !inc.Flatten {
		if len(name) > 0 && name[0:1] == ":" {
			key = name[1:]
		} else {
			key = inc.Namespace + ":" + name
		}
	}
	if err != nil {
		zz.Reach("merge-error")
		_, clash := t1.Get(key)
		zz.Assert(clash && !excluded, "error-only-on-clash")
		return
	}
	m, ok := t1.Get(key)
	if excluded {
		zz.Reach("excluded")
		zz.Assert(t1.Len() == before, "excluded-not-added")
		return
	}
	zz.Assert(ok, "callable-under-namespaced-name")
	if !ok {
		return
	}
	zz.Reach("merged")
	zz.Assert(t1.Len() == before+1, "nothing-dropped-or-overwritten")
	zz.Assert(m.Internal == wantInternal, "internal-or")
	zz.Assert(m.Watch == t.Watch, "watch-kept")
	zz.Assert(m.Silent == t.Silent && m.Method == t.Method && m.Run == t.Run && m.IgnoreError == t.IgnoreError, "attrs-kept")
	zz.Assert(len(m.Cmds) == 2 && m.Cmds[0].Cmd == t.Cmds[0].Cmd, "cmds-kept")
	if !inc.Flatten {
		if depWasRoot {
			zz.Assert(":"+m.Deps[0].Task == origDep, "root-dep-unprefixed")
		} else {
			zz.Assert(m.Deps[0].Task == inc.Namespace+":"+origDep, "dep-namespaced")
		}
	}
	zz.Assert(t.Deps[0].Task == origDep, "definition-unchanged")
}



// ZZ_C08_IncludedTwice: a Taskfile (which itself includes a leaf file) included
// twice under two namespaces with different vars yields two independent sets of
// tasks: each sees its own include vars, its deps/calls/aliases carry its own
// namespace, and the definitions are unchanged.
func ZZ_C08_IncludedTwice() {
	one, two := zz.Str("who1", 2, "ab"), zz.Str("who2", 2, "ab")
	leafVar := zz.Str("leafvar", 2, "ab")
	mkLeaf := func() *Tasks {
		return NewTasks(&TaskElement{Key: "show", Value: &Task{Task: "show", Aliases: []string{"s"},
			Deps: []*Dep{{Task: "dep"}}, Cmds: []*Cmd{{Task: "other"}, {Task: ":roottask"}}, Location: &Location{Taskfile: "leaf"}}})
	}
	leaf := mkLeaf()
	mid := NewTasks(&TaskElement{Key: "show", Value: &Task{Task: "show", Deps: []*Dep{{Task: "leaf:show"}}, Location: &Location{Taskfile: "mid"}}})
	leafInc := &Include{Namespace: "leaf", AdvancedImport: zz.Bool("leaf_include_is_mapping_form"), Vars: NewVars()}
	leafInc.Vars.Set("L", Var{Value: leafVar})
	zz.Assert(mid.Merge(leaf, leafInc, NewVars()) == nil, "merge-must-not-fail")
	root := NewTasks()
	inc1 := &Include{Namespace: "m1", AdvancedImport: true, Vars: NewVars(), Aliases: []string{"l"}}
	inc1.Vars.Set("WHO", Var{Value: one})
	inc2 := &Include{Namespace: "m2", AdvancedImport: true, Vars: NewVars()}
	inc2.Vars.Set("WHO", Var{Value: two})
	zz.Assert(root.Merge(mid, inc1, NewVars()) == nil, "merge-must-not-fail")
	zz.Assert(root.Merge(mid, inc2, NewVars()) == nil, "merge-must-not-fail")
	who := func(key string) (string, bool) {
		t, ok := root.Get(key)
		if !ok || t.IncludeVars == nil {
			return "", false
		}
		v, ok := t.IncludeVars.Get("WHO")
		s, _ := v.Value.(string)
		return s, ok
	}
	for _, c := range []struct{ key, want, ns string }{{"m1:show", one, "m1"}, {"m2:show", two, "m2"}, {"m1:leaf:show", one, "m1"}, {"m2:leaf:show", two, "m2"}} {
		got, ok := who(c.key)
		zz.Assert(ok && got == c.want, "included-twice/each-copy-sees-its-own-include-vars/"+c.key)
		t, present := root.Get(c.key)
		zz.Assert(present, "included-twice/callable/"+c.key)
		if present && c.key == c.ns+":leaf:show" && zz.Param("vars_only", 0) == 1 {
			// (as a C10 check: only what the copies see of the include statements' variables)
			if leafInc.AdvancedImport {
				lv, ok := t.IncludeVars.Get("L")
				ls, _ := lv.Value.(string)
				zz.Assert(ok && ls == leafVar, "included-twice/inner-include-vars-kept")
			}
		} else if present && c.key == c.ns+":leaf:show" {
			zz.Assert(t.Deps[0].Task == c.ns+":leaf:dep" && t.Cmds[0].Task == c.ns+":leaf:other", "included-twice/references-carry-own-namespace")
			zz.Assert(t.Cmds[1].Task == "roottask", "included-twice/root-references-unprefixed")
			zz.Assert(len(t.Aliases) >= 1 && t.Aliases[0] == c.ns+":leaf:s", "included-twice/aliases-carry-own-namespace")
			if c.ns == "m1" { // the include's namespace alias names the same task by its full inner path
				has := func(a string) bool {
					for _, x := range t.Aliases {
						if x == a {
							return true
						}
					}
					return false
				}
				zz.Assert(has("l:leaf:show") && has("l:leaf:s"), "included-twice/namespace-alias-keeps-the-inner-path")
				zz.Assert(!has("l:show"), "included-twice/namespace-alias-does-not-shadow-the-parent-file")
			}
			if leafInc.AdvancedImport {
				l, ok := t.IncludeVars.Get("L")
				ls, _ := l.Value.(string)
				zz.Assert(ok && ls == leafVar, "included-twice/inner-include-vars-kept")
			}
		}
	}
	def, _ := leaf.Get("show")
	zz.Assert(def.Task == "show" && def.Deps[0].Task == "dep" && def.Cmds[0].Task == "other" && def.Aliases[0] == "s" && def.IncludeVars == nil, "included-twice/definitions-unchanged")
	if zz.Twin() {
		zz.Assert(false, "twin")
	}
	zz.Reach("end")
}
