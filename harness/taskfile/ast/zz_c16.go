package ast

import (
	"fmt"

	"gopkg.in/yaml.v3"

	zz "github.com/go-task/task/v3/internal/zzsym"
)

var zzKinds = []yaml.Kind{yaml.ScalarNode, yaml.MappingNode, yaml.SequenceNode, 0}

// zzNode builds an arbitrary well-formed yaml.Node tree of bounded size: kind,
// value, number of children (even for mappings) and position are symbolic. It is
// also the generator the engine's Decode stub uses for nested custom types.
func zzNode(path string, depth int) *yaml.Node {
	if depth <= -9 {
		return &yaml.Node{Kind: yaml.ScalarNode, Value: zz.Str(path+".value", 3, "ab*shref")}
	}
	n := &yaml.Node{
		Kind:   zzKinds[zz.Choose(path+".kind", len(zzKinds))],
		Value:  zz.Str(path+".value", 3, "ab*shref"),
		Line:   zz.Int(path+".line", 0, 9),
		Column: zz.Int(path+".col", 0, 9),
	}
	if depth < 0 || n.Kind == yaml.ScalarNode || n.Kind == 0 {
		return n
	}
	nc := zz.Choose(path+".n", zz.Param("maxitems", 1)+1)
	if n.Kind == yaml.MappingNode {
		nc = 2 * zz.Choose(path+".pairs", zz.Param("maxitems", 1)+1)
	}
	for k := 0; k < nc; k++ {
		var c *yaml.Node
		if n.Kind == yaml.MappingNode && k%2 == 0 {
			c = &yaml.Node{Kind: yaml.ScalarNode, Value: zz.Str(fmt.Sprintf("%s.%d.key", path, k), 3, "ab*shrefmp")}
		} else {
			c = zzNode(fmt.Sprintf("%s.%d", path, k), depth-1)
		}
		n.Content = append(n.Content, c)
	}
	return n
}

type zzUnmarshaler interface{ UnmarshalYAML(*yaml.Node) error }

var zzTargets = []struct {
	name string
	mk   func() zzUnmarshaler
}{
	{"Var", func() zzUnmarshaler { return &Var{} }},
	{"Vars", func() zzUnmarshaler { return &Vars{} }},
	{"Cmd", func() zzUnmarshaler { return &Cmd{} }},
	{"Defer", func() zzUnmarshaler { return &Defer{} }},
	{"Dep", func() zzUnmarshaler { return &Dep{} }},
	{"For", func() zzUnmarshaler { return &For{} }},
	{"Glob", func() zzUnmarshaler { return &Glob{} }},
	{"Includes", func() zzUnmarshaler { return &Includes{} }},
	{"Include", func() zzUnmarshaler { return &Include{} }},
	{"Matrix", func() zzUnmarshaler { return &Matrix{} }},
	{"Output", func() zzUnmarshaler { return &Output{} }},
	{"Platform", func() zzUnmarshaler { return &Platform{} }},
	{"Precondition", func() zzUnmarshaler { return &Precondition{} }},
	{"Prompt", func() zzUnmarshaler { return new(Prompt) }},
	{"VarsWithValidation", func() zzUnmarshaler { return &VarsWithValidation{} }},
	{"Task", func() zzUnmarshaler { return &Task{} }},
	{"Tasks", func() zzUnmarshaler { return &Tasks{} }},
	{"Taskfile", func() zzUnmarshaler { return &Taskfile{} }},
}

// ZZ_C16_Unmarshal: no well-formed node tree makes a hand-written UnmarshalYAML
// method panic (the engine reports every feasible panic path as a violation).
func ZZ_C16_Unmarshal() {
	which := zz.Choose("type", len(zzTargets))
	if p := zz.Param("only", -1); p >= 0 {
		zz.Assume(which == p)
	}
	tgt := zzTargets[which]
	n := zzNode("n", zz.Param("depth", 1))
	zz.Note(tgt.name)
	x := tgt.mk()
	if zz.Native() {
		// The real decoder: serialise the tree and run yaml.Unmarshal on the text,
		// so that the replay only confirms what a byte string can trigger.
		b, err := zzMarshal(n)
		fmt.Printf("ZZ-NOTE yaml=%q marshalErr=%v\n", b, err)
		if err == nil {
			err = yaml.Unmarshal(b, x)
			fmt.Printf("ZZ-NOTE unmarshal err=%v\n", err)
			if err == nil {
				zzDeepCopyOf(x)
			}
		}
		return
	}
	err := x.UnmarshalYAML(n)
	if err != nil {
		_ = err.Error()
	} else {
		// whatever was decoded is deep-copied when its Taskfile is merged into an
		// including one, and when its task is compiled
		zzDeepCopyOf(x)
	}
	if zz.Twin() {
		zz.Assert(false, "twin")
	}
	zz.Reach("end")
}

// zzDeepCopyOf calls the value's own DeepCopy (the types that have one).
func zzDeepCopyOf(x zzUnmarshaler) {
	switch v := x.(type) {
	case *Cmd:
		_ = v.DeepCopy()
	case *Dep:
		_ = v.DeepCopy()
	case *For:
		_ = v.DeepCopy()
	case *Include:
		_ = v.DeepCopy()
	case *Matrix:
		_ = v.DeepCopy()
	case *Platform:
		_ = v.DeepCopy()
	case *Precondition:
		_ = v.DeepCopy()
	case *VarsWithValidation:
		_ = v.DeepCopy()
	case *Task:
		_ = v.DeepCopy()
	case *Vars:
		_ = v.DeepCopy()
	}
}

func zzMarshal(n *yaml.Node) (b []byte, err error) {
	defer func() {
		if r := recover(); r != nil {
			err = fmt.Errorf("marshal panic: %v", r)
		}
	}()
	return yaml.Marshal(n)
}


// ZZ_C16_Merge: merging an included Taskfile never panics, for every combination
// of a default task, excludes, flatten, aliases and a clashing task in the parent.
func ZZ_C16_Merge() {
	t2 := NewTasks()
	if zz.Bool("included_has_default") {
		t2.Set("default", &Task{Task: "default"})
	}
	t2.Set("other", &Task{Task: "other", Aliases: []string{"o"}, Deps: []*Dep{nil, {Task: "default"}}, Cmds: []*Cmd{nil, {Task: "other"}}})
	t1 := NewTasks()
	if zz.Bool("parent_has_namespace_task") {
		t1.Set("inc", &Task{Task: "inc"})
	}
	inc := &Include{Namespace: "inc", Flatten: zz.Bool("flatten"), AdvancedImport: zz.Bool("advanced"), Internal: zz.Bool("internal")}
	switch zz.Choose("excludes", 4) {
	case 1:
		inc.Excludes = []string{"default"}
	case 2:
		inc.Excludes = []string{"other"}
	case 3:
		inc.Excludes = []string{"default", "other"}
	}
	if zz.Bool("has_aliases") {
		inc.Aliases = []string{"i"}
	}
	var vars *Vars
	if zz.Bool("vars_present") {
		vars = NewVars()
	}
	_ = t1.Merge(t2, inc, vars)
	if zz.Twin() {
		zz.Assert(false, "twin")
	}
	zz.Reach("end")
}
