package ast

import (
	"github.com/Masterminds/semver/v3"
	"github.com/dominikbraun/graph"

	zz "github.com/go-task/task/v3/internal/zzsym"
)

// zzLoad builds the include graph root -> {a, b} (optionally a -> c and b -> c) and
// merges it, as the reader does after all files were read.
func zzLoad(diamond bool) (string, string, bool) {
	ver := &semver.Version{}
	mk := func(name string) *Taskfile {
		tf := &Taskfile{Version: ver, Vars: NewVars(), Env: NewVars(), Tasks: NewTasks(), Includes: NewIncludes()}
		tf.Vars.Set("X", Var{Value: "from-" + name})
		tf.Tasks.Set("t-"+name, &Task{Task: "t-" + name, Location: &Location{Taskfile: name}})
		return tf
	}
	g := NewTaskfileGraph()
	root := mk("root")
	root.Vars = NewVars()
	// the files of sibling directories typically share their base name
	uri := map[string]string{"root": "/p/Taskfile.yml", "a": "/p/api/Taskfile.yml", "b": "/p/web/Taskfile.yml", "c": "/p/lib/Taskfile.yml"}
	files := map[string]*Taskfile{"root": root, "a": mk("a"), "b": mk("b"), "c": mk("c")}
	for _, n := range []string{"root", "a", "b"} {
		_ = g.AddVertex(&TaskfileVertex{URI: uri[n], Taskfile: files[n]})
	}
	edge := func(from, to, ns string, advancedDir string) {
		inc := &Include{Namespace: ns, Taskfile: uri[to]}
		if advancedDir != "" {
			inc.AdvancedImport, inc.Dir = true, advancedDir
		}
		_ = g.AddEdge(uri[from], uri[to], graph.EdgeData([]*Include{inc}))
	}
	edge("root", "a", "a", "")
	edge("root", "b", "b", "")
	if diamond {
		_ = g.AddVertex(&TaskfileVertex{URI: uri["c"], Taskfile: files["c"]})
		edge("a", "c", "c", "")
		edge("b", "c", "c", "sub") // one parent includes it with dir:, the other plainly
	}
	if zz.Param("deep", 0) == 1 {
		// both parents include c in map form with their own value for WHO, and c itself
		// includes a further file in map form: its tasks carry include vars of two levels
		uri["e"] = "/p/lib/deep/Taskfile.yml"
		e := mk("e")
		_ = g.AddVertex(&TaskfileVertex{URI: uri["e"], Taskfile: e})
		vedge := func(from, to, ns, name, val string) {
			inc := &Include{Namespace: ns, Taskfile: uri[to], AdvancedImport: true, Vars: NewVars()}
			inc.Vars.Set(name, Var{Value: val})
			_ = g.RemoveEdge(uri[from], uri[to])
			_ = g.AddEdge(uri[from], uri[to], graph.EdgeData([]*Include{inc}))
		}
		vedge("a", "c", "c", "WHO", "from-a")
		vedge("b", "c", "c", "WHO", "from-b")
		vedge("c", "e", "e", "LEVEL", "from-c")
	}
	tf, err := g.Merge()
	if err != nil || tf == nil {
		return "", "", false
	}
	x, _ := tf.Vars.Get("X")
	xs, _ := x.Value.(string)
	xs += "@" + x.Dir
	order := ""
	for name := range tf.Tasks.Keys(nil) {
		order += name + ","
	}
	// the include variables every merged task carries are part of what a load computes
	for name, t := range tf.Tasks.All(nil) {
		if t.IncludeVars != nil {
			for k, v := range t.IncludeVars.All() {
				vs, _ := v.Value.(string)
				xs += ";" + name + "." + k + "=" + vs
			}
		}
	}
	return xs, order, true
}

// ZZ_C09_Merge (2-safety by self-composition): two loads of the same Taskfile tree -
// each with its own symbolic order for every Go map range - give the same variable
// values and the same task order.
func ZZ_C09_Merge() {
	diamond := zz.Param("diamond", 0) == 1
	x1, o1, ok1 := zzLoad(diamond)
	x2, o2, ok2 := zzLoad(diamond)
	zz.Assert(ok1 && ok2, "load-succeeds")
	zz.Assert(x1 == x2, "same-variable-values-on-every-load")
	zz.Assert(o1 == o2, "same-task-order-on-every-load")
	if zz.Native() {
		// natively the map order is the runtime's: repeat to let it vary
		for k := 0; k < 60; k++ {
			x, o, _ := zzLoad(diamond)
			zz.Assert(x == x1, "same-variable-values-on-every-load")
			zz.Assert(o == o1, "same-task-order-on-every-load")
		}
	}
	if zz.Twin() {
		zz.Assert(false, "twin")
	}
	zz.Reach("end")
}
