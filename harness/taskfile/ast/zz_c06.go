package ast

import (
	"github.com/Masterminds/semver/v3"

	zz "github.com/go-task/task/v3/internal/zzsym"
)

// ZZ_C06_MergeKeepsFileSettings: merging an included Taskfile brings in its tasks and
// variables; the settings of the including file that decide how its own tasks run (run:,
// method:, silent:) stay what that file says, whatever the included file declares: a root
// Taskfile without run: keeps the default (always), so its tasks execute once per reference.
func ZZ_C06_MergeKeepsFileSettings() {
	runs := []string{"", "always", "once", "when_changed"}
	methods := []string{"", "checksum", "timestamp", "none"}
	root := &Taskfile{Version: semver.MustParse("3"), Run: runs[zz.Choose("root.run", 4)], Method: methods[zz.Choose("root.method", 4)],
		Silent: zz.Bool("root.silent"), Tasks: NewTasks(&TaskElement{Key: "step", Value: &Task{Task: "step"}})}
	if zz.Bool("root_has_no_vars_yet") {
		root.Vars, root.Env = nil, nil
	} else {
		root.Vars, root.Env = NewVars(), NewVars()
	}
	lib := &Taskfile{Version: semver.MustParse("3"), Run: runs[zz.Choose("included.run", 4)], Method: methods[zz.Choose("included.method", 4)],
		Silent: zz.Bool("included.silent"), Vars: NewVars(), Env: NewVars(),
		Tasks: NewTasks(&TaskElement{Key: "setup", Value: &Task{Task: "setup"}})}
	wantRun, wantMethod, wantSilent := root.Run, root.Method, root.Silent
	err := root.Merge(lib, &Include{Namespace: "lib", Flatten: zz.Bool("flatten")})
	zz.Assert(err == nil, "merge-must-not-fail")
	zz.Assert(root.Run == wantRun, "run-default-of-the-including-file-kept")
	zz.Assert(root.Method == wantMethod, "method-default-of-the-including-file-kept")
	zz.Assert(root.Silent == wantSilent, "silent-of-the-including-file-kept")
	st, ok := root.Tasks.Get("step")
	zz.Assert(ok && st.Run == "", "own-task-untouched")
	if zz.Twin() {
		zz.Assert(false, "twin")
	}
	zz.Reach("end")
}
