package taskfile

import (
	"context"
	"crypto/tls"
	"fmt"
	"net/http"
	"net/http/httptest"
	"net/url"
	"os"
	"path/filepath"

	"github.com/Masterminds/semver/v3"

	"github.com/go-task/task/v3/errors"
	"github.com/go-task/task/v3/internal/experiments"
	zz "github.com/go-task/task/v3/internal/zzsym"
	"github.com/go-task/task/v3/taskfile/ast"
)

func zzTaskfileWith(ver *semver.Version, task string, loc string) *ast.Taskfile {
	tf := &ast.Taskfile{Version: ver, Vars: ast.NewVars(), Env: ast.NewVars(), Tasks: ast.NewTasks(), Includes: ast.NewIncludes()}
	tf.Tasks.Set(task, &ast.Task{Task: task, Location: &ast.Location{Taskfile: loc}})
	return tf
}

// ZZ_C08_Reader: root -> opt -> lib, each include optional or not, either file possibly
// missing: a missing file behind a non-optional include statement is an error wherever it
// sits; a missing optional one only removes its own subtree; nothing else is dropped.
func ZZ_C08_Reader() {
	optOptional := zz.Bool("include_of_opt_is_optional")
	libOptional := zz.Bool("include_of_lib_is_optional")
	missing := zz.Choose("missing_file", 3) // 0 none, 1 opt, 2 lib
	wantErr := (missing == 1 && !optOptional) || (missing == 2 && !libOptional)
	var names string
	var err error
	if zz.Native() {
		dir, _ := os.MkdirTemp("", "zzc08")
		defer os.RemoveAll(dir)
		os.MkdirAll(filepath.Join(dir, "opt", "lib"), 0o755)
		os.WriteFile(filepath.Join(dir, "Taskfile.yml"), []byte(fmt.Sprintf("version: '3'\nincludes:\n  opt:\n    taskfile: ./opt/Taskfile.yml\n    optional: %v\ntasks:\n  t: {cmds: [echo root]}\n", optOptional)), 0o644)
		if missing != 1 {
			os.WriteFile(filepath.Join(dir, "opt", "Taskfile.yml"), []byte(fmt.Sprintf("version: '3'\nincludes:\n  lib:\n    taskfile: ./lib/Taskfile.yml\n    optional: %v\ntasks:\n  t: {cmds: [echo opt]}\n", libOptional)), 0o644)
		}
		if missing != 2 {
			os.WriteFile(filepath.Join(dir, "opt", "lib", "Taskfile.yml"), []byte("version: '3'\ntasks:\n  t: {cmds: [echo lib]}\n"), 0o644)
		}
		var node Node
		node, err = NewRootNode(filepath.Join(dir, "Taskfile.yml"), dir, false, 0)
		if err == nil {
			var g *ast.TaskfileGraph
			g, err = NewReader().Read(context.Background(), node)
			if err == nil {
				var tf *ast.Taskfile
				tf, err = g.Merge()
				if err == nil {
					for name := range tf.Tasks.Keys(nil) {
						names += name + ","
					}
				}
			}
		}
	} else {
		ver := &semver.Version{}
		zzMissing = map[string]bool{"/p/opt/Taskfile.yml": missing == 1, "/p/opt/lib/Taskfile.yml": missing == 2}
		zzASTs = map[string]func() *ast.Taskfile{
			"/p/Taskfile.yml": func() *ast.Taskfile {
				tf := zzTaskfileWith(ver, "t", "/p/Taskfile.yml")
				tf.Includes.Set("opt", &ast.Include{Namespace: "opt", Taskfile: "/p/opt/Taskfile.yml", Optional: optOptional})
				return tf
			},
			"/p/opt/Taskfile.yml": func() *ast.Taskfile {
				tf := zzTaskfileWith(ver, "t", "/p/opt/Taskfile.yml")
				tf.Includes.Set("lib", &ast.Include{Namespace: "lib", Taskfile: "/p/opt/lib/Taskfile.yml", Optional: libOptional})
				return tf
			},
			"/p/opt/lib/Taskfile.yml": func() *ast.Taskfile { return zzTaskfileWith(ver, "t", "/p/opt/lib/Taskfile.yml") },
		}
		var g *ast.TaskfileGraph
		g, err = NewReader().Read(context.Background(), &zzFileNode{BaseNode: NewBaseNode(""), loc: "/p/Taskfile.yml"})
		if err == nil {
			var tf *ast.Taskfile
			tf, err = g.Merge()
			if err == nil {
				for name := range tf.Tasks.Keys(nil) {
					names += name + ","
				}
			}
		}
		zzMissing = nil
	}
	zz.Assert((err != nil) == wantErr, "missing-file-behind-a-non-optional-include-is-an-error")
	if err == nil && !wantErr {
		want := "t,"
		if missing != 1 {
			want += "opt:t,"
			if missing != 2 {
				want += "opt:lib:t,"
			}
		}
		zz.Assert(names == want, "no-task-silently-dropped")
	}
	if zz.Twin() {
		zz.Assert(false, "twin")
	}
	zz.Reach("end")
}

// ZZ_C10_IncludeStatement: the templates of an include statement (its vars:) see the
// including Taskfile's global vars before the process environment.
func ZZ_C10_IncludeStatement() {
	inGlobal := zz.Bool("name_defined_in_global_vars")
	inEnv := zz.Bool("name_defined_in_process_environment")
	gval, eval := zz.Str("global_value", 2, "ab"), zz.Str("env_value", 2, "ab")
	zz.Assume(gval != eval && gval != "" && eval != "")
	picked := ""
	if zz.Native() {
		dir, _ := os.MkdirTemp("", "zzc10")
		defer os.RemoveAll(dir)
		os.Unsetenv("ZZNAME")
		if inEnv {
			os.Setenv("ZZNAME", eval)
			defer os.Unsetenv("ZZNAME")
		}
		vars := ""
		if inGlobal {
			vars = "vars:\n  ZZNAME: " + gval + "\n"
		}
		os.WriteFile(filepath.Join(dir, "Taskfile.yml"), []byte("version: '3'\n"+vars+"includes:\n  inc:\n    taskfile: ./inc.yml\n    vars:\n      PICKED: '{{.ZZNAME}}'\n"), 0o644)
		os.WriteFile(filepath.Join(dir, "inc.yml"), []byte("version: '3'\ntasks:\n  t: {cmds: [echo t]}\n"), 0o644)
		node, err := NewRootNode(filepath.Join(dir, "Taskfile.yml"), dir, false, 0)
		if err == nil {
			if g, err := NewReader().Read(context.Background(), node); err == nil {
				if tf, err := g.Merge(); err == nil {
					if t, ok := tf.Tasks.Get("inc:t"); ok && t.IncludeVars != nil {
						if v, ok := t.IncludeVars.Get("PICKED"); ok {
							picked, _ = v.Value.(string)
						}
					}
				}
			}
		}
	} else {
		ver := &semver.Version{}
		zzEnvironList = []string{"HOME=/h"}
		if inEnv {
			zzEnvironList = append(zzEnvironList, "ZZNAME="+eval)
		}
		zzASTs = map[string]func() *ast.Taskfile{
			"/p/Taskfile.yml": func() *ast.Taskfile {
				tf := zzTaskfileWith(ver, "r", "/p/Taskfile.yml")
				if inGlobal {
					tf.Vars.Set("ZZNAME", ast.Var{Value: gval})
				}
				inc := &ast.Include{Namespace: "inc", Taskfile: "/p/inc.yml", AdvancedImport: true, Vars: ast.NewVars()}
				inc.Vars.Set("PICKED", ast.Var{Value: "{{.ZZNAME}}"})
				tf.Includes.Set("inc", inc)
				return tf
			},
			"/p/inc.yml": func() *ast.Taskfile { return zzTaskfileWith(ver, "t", "/p/inc.yml") },
		}
		if g, err := NewReader().Read(context.Background(), &zzFileNode{BaseNode: NewBaseNode(""), loc: "/p/Taskfile.yml"}); err == nil {
			if tf, err := g.Merge(); err == nil {
				if t, ok := tf.Tasks.Get("inc:t"); ok && t.IncludeVars != nil {
					if v, ok := t.IncludeVars.Get("PICKED"); ok {
						picked, _ = v.Value.(string)
					}
				}
			}
		}
		zzEnvironList = nil
	}
	want := ""
	switch {
	case inGlobal:
		want = gval
	case inEnv:
		want = eval
	}
	zz.Assert(picked == want, "include-statement-templates/global-vars-before-process-environment")
	if zz.Twin() {
		zz.Assert(false, "twin")
	}
	zz.Reach("end")
}

// ZZ_C09_NodeResolve (2-safety): a Taskfile reached through several includes is read once,
// through whichever include's node the reader goroutines add first; what that node resolves
// (the locations and directories of the file's own includes) must therefore not depend on
// which include created it.
func ZZ_C09_NodeResolve() {
	d1, d2 := zz.Str("dir_of_first_include", 3, "ab/"), zz.Str("dir_of_second_include", 3, "ab/")
	rels := []string{"./work", "tool.yml", "../x", ""}
	rel := rels[zz.Choose("relative_path", len(rels))]
	n1 := &FileNode{BaseNode: NewBaseNode(d1), Entrypoint: "/p/shared/Taskfile.yml"}
	n2 := &FileNode{BaseNode: NewBaseNode(d2), Entrypoint: "/p/shared/Taskfile.yml"}
	r1, e1 := n1.ResolveDir(rel)
	r2, e2 := n2.ResolveDir(rel)
	zz.Assert(r1 == r2 && (e1 == nil) == (e2 == nil), "same-include-dir-whichever-include-created-the-node")
	// ... and it is the path relative to the directory of the including Taskfile (for an
	// include without dir: that directory itself)
	wantDir := map[string]string{"./work": "/p/shared/work", "tool.yml": "/p/shared/tool.yml", "../x": "/p/x", "": "/p/shared"}[rel]
	zz.Assert(e1 == nil && r1 == wantDir, "include-paths-are-relative-to-the-including-taskfile")
	p1, f1 := n1.ResolveEntrypoint(rel)
	p2, f2 := n2.ResolveEntrypoint(rel)
	zz.Assert(p1 == p2 && (f1 == nil) == (f2 == nil), "same-include-location-whichever-include-created-the-node")
	// a relative path is a path next to the including Taskfile whatever its first letters are
	// (only URLs and scp-like git addresses are left alone)
	stem := zz.Str("name_of_the_included_directory", 4, "gihtx")
	zz.Assume(stem != "")
	p3, f3 := n1.ResolveEntrypoint(stem + "/Taskfile.yml")
	zz.Assert(f3 == nil && p3 == "/p/shared/"+stem+"/Taskfile.yml", "relative-include-path-is-relative-whatever-its-name")
	if zz.Twin() {
		zz.Assert(false, "twin")
	}
	zz.Reach("end")
}

// the server is down: the existence check fails (symbolic run; natively nothing listens on port 1)
//
//gosmt:stub github.com/go-task/task/v3/taskfile.RemoteExists
func zzRemoteExists(ctx context.Context, u *url.URL) (*url.URL, error) {
	if !zzServerUp {
		return nil, fmt.Errorf("zz: connection refused")
	}
	// the server has /first/Taskfile.yml: a directory-style URL is completed with the file name
	if u.Path == "/first" || u.Path == "/first/" {
		return u.JoinPath("Taskfile.yml"), nil
	}
	return u, nil
}

// (the same, for the form that is handed the client to use)
//
//gosmt:stub github.com/go-task/task/v3/taskfile.remoteExists
func zzRemoteExistsWith(ctx context.Context, u *url.URL, client *http.Client) (*url.URL, error) {
	zzClients = append(zzClients, client)
	return zzRemoteExists(ctx, u)
}

// the transfer itself is not encoded: it fails after the existence check (symbolic run)
//
//gosmt:stub (*net/http.Client).Do
func zzClientDo(c *http.Client, req *http.Request) (*http.Response, error) {
	zzClients = append(zzClients, c)
	return nil, fmt.Errorf("zz: transfer not encoded")
}

// zzClients: the HTTP clients the requests for remote Taskfiles were made with
var zzClients []*http.Client

// ZZ_C20_RedirectPolicy: plain http is refused without --insecure also when it is where an
// https address redirects to. The redirects themselves are followed inside net/http, which is
// not encoded; what go-task decides is the client it makes its requests with: every such
// client (existence check and download) must carry a redirect policy that refuses a hop to an
// http:// address unless plain http is allowed, and lets an https hop pass. Natively: a TLS
// test server redirecting to a plain (or a second TLS) server that has the Taskfile.
func ZZ_C20_RedirectPolicy() {
	insecure := zz.Bool("insecure")
	target := []string{"http", "https"}[zz.Choose("redirect_target_scheme", 2)]
	if zz.Native() {
		zzRedirectNative(insecure, target)
		zz.Reach("end")
		return
	}
	zzServerUp = true
	zzClients = nil
	n, err := NewHTTPNode("https://example.com/Taskfile.yml", "", insecure)
	zz.Assert(err == nil && n != nil, "https-accepted")
	if err != nil || n == nil {
		return
	}
	_, _ = n.ReadContext(context.Background())
	zz.Assert(len(zzClients) >= 1, "a-request-is-made")
	for _, c := range zzClients {
		var perr error
		if c != nil && c.CheckRedirect != nil {
			perr = c.CheckRedirect(&http.Request{URL: &url.URL{Scheme: target, Host: "example.com", Path: "/Taskfile.yml"}}, nil)
		}
		zz.Assert((perr != nil) == (target == "http" && !insecure), "redirect-to-plain-http-refused-without-insecure")
	}
	if zz.Twin() {
		zz.Assert(false, "twin")
	}
	zz.Reach("end")
}

func zzRedirectNative(insecure bool, target string) {
	hits := 0
	serve := http.HandlerFunc(func(w http.ResponseWriter, r *http.Request) {
		hits++
		w.Header().Set("Content-Type", "text/yaml")
		fmt.Fprint(w, "version: '3'\n")
	})
	var final *httptest.Server
	if target == "http" {
		final = httptest.NewServer(serve)
	} else {
		final = httptest.NewTLSServer(serve)
	}
	defer final.Close()
	front := httptest.NewTLSServer(http.HandlerFunc(func(w http.ResponseWriter, r *http.Request) {
		http.Redirect(w, r, final.URL+"/Taskfile.yml", http.StatusFound)
	}))
	defer front.Close()
	// the test certificates are trusted for the length of this run
	tr := http.DefaultTransport.(*http.Transport)
	old := tr.TLSClientConfig
	tr.TLSClientConfig = &tls.Config{InsecureSkipVerify: true}
	defer func() { tr.TLSClientConfig = old }()
	n, err := NewHTTPNode(front.URL+"/Taskfile.yml", "", insecure)
	if err != nil || n == nil {
		zz.Assert(false, "https-accepted")
		return
	}
	b, rerr := n.ReadContext(context.Background())
	fmt.Printf("ZZ-NOTE redirect to %s, insecure=%v: %d bytes, err=%v, hits on the final server=%d\n", target, insecure, len(b), rerr, hits)
	if target == "http" && !insecure {
		zz.Assert(rerr != nil && hits == 0, "redirect-to-plain-http-refused-without-insecure")
	} else {
		zz.Assert(rerr == nil && len(b) > 0, "redirect-to-plain-http-refused-without-insecure")
	}
}

var zzServerUp bool

// ZZ_C20_NodeOnlineOffline (2-safety): the URL under which a remote Taskfile's relative
// include is looked up (and cached) must be the same whether the parent was just fetched
// (online run, which approved and cached both) or is served from the cache (offline run,
// server down): otherwise the approved child is not found in the cache.
func ZZ_C20_NodeOnlineOffline() {
	styles := []string{"/first/Taskfile.yml", "/first/", "/first"}
	style := styles[zz.Choose("entrypoint_style", len(styles))]
	base := "http://127.0.0.1:1"
	if zz.Native() {
		srv := httptest.NewServer(http.HandlerFunc(func(w http.ResponseWriter, r *http.Request) {
			if r.URL.Path == "/first/Taskfile.yml" {
				w.Header().Set("Content-Type", "text/yaml")
				fmt.Fprint(w, "version: '3'\n")
				return
			}
			http.NotFound(w, r)
		}))
		defer srv.Close()
		base = srv.URL
	}
	zzServerUp = true
	online, err1 := NewHTTPNode(base+style, "", true)
	offline, err2 := NewHTTPNode(base+style, "", true)
	zz.Assert(err1 == nil && err2 == nil, "nodes-created")
	if err1 != nil || err2 != nil {
		return
	}
	_, _ = online.ReadContext(context.Background()) // the online run reads the parent ...
	a, ea := online.ResolveEntrypoint("./second/Taskfile.yml")
	b, eb := offline.ResolveEntrypoint("./second/Taskfile.yml") // ... the offline run takes it from the cache
	zz.Assert(ea == nil && eb == nil && a == b, "relative-include-of-a-remote-taskfile-resolves-the-same-online-and-from-the-cache/"+style)
	zzServerUp = false
	if zz.Twin() {
		zz.Assert(false, "twin")
	}
	zz.Reach("end")
}

// ZZ_C20_HTTPNodeOffline: when the fetch of an approved remote Taskfile fails and the reader
// falls back to the cached copy, the node must still resolve the copy's relative includes.
func ZZ_C20_HTTPNodeOffline() {
	u, _ := url.Parse("http://127.0.0.1:1/first/Taskfile.yml")
	node := &HTTPNode{BaseNode: NewBaseNode(""), URL: u, entrypoint: "http://127.0.0.1:1/first/Taskfile.yml"}
	_, err := node.ReadContext(context.Background())
	zz.Assert(err != nil, "fetch-fails")
	got, rerr := node.ResolveEntrypoint("./second/Taskfile.yml")
	zz.Assert(rerr == nil && got == "http://127.0.0.1:1/first/second/Taskfile.yml", "cached-copy-resolves-its-relative-includes-after-a-failed-fetch")
	if zz.Twin() {
		zz.Assert(false, "twin")
	}
	zz.Reach("end")
}

// shell expansion of a path is mvdan/sh code (see ZZ_C16_Expand): identity on the plain
// relative paths used here
//
//gosmt:stub github.com/go-task/task/v3/internal/execext.ExpandLiteral
func zzExpandLiteralIdentity(s string) (string, error) { return s, nil }

// ZZ_C20_ErrorClassThroughIncludes: a remote Taskfile that may not be used (not approved: 104,
// not in the cache while offline: 106) is usually reached through includes:. Whatever the
// nesting depth, the error the reader returns is still the documented class for the code
// that picks the exit status (cmd/task main() asserts errors.TaskError on it).
func ZZ_C20_ErrorClassThroughIncludes() {
	depth := 1 + zz.Choose("include_depth", 2)
	notTrusted := zz.Bool("contents_not_approved")
	var refusal error = &errors.TaskfileCacheNotFoundError{URI: "https://h/remote.yml"}
	want := errors.CodeTaskfileCacheNotFound
	if notTrusted {
		refusal = &errors.TaskfileNotTrustedError{URI: "https://h/remote.yml"}
		want = errors.CodeTaskfileNotTrusted
	}
	if zz.Native() {
		// the real reader over real files and a local server: the remote file is unapproved
		// (the prompt is declined) or absent from the cache while offline
		experiments.RemoteTaskfiles = experiments.Experiment{Name: "REMOTE_TASKFILES", AllowedValues: []int{1}, Value: 1}
		srv := httptest.NewServer(http.HandlerFunc(func(w http.ResponseWriter, r *http.Request) {
			w.Header().Set("Content-Type", "text/yaml")
			fmt.Fprint(w, "version: '3'\ntasks:\n  t: {cmds: [echo remote]}\n")
		}))
		defer srv.Close()
		dir, _ := os.MkdirTemp("", "zzc20inc")
		defer os.RemoveAll(dir)
		inc := "includes:\n  n: " + srv.URL + "/remote.yml\n"
		if depth == 1 {
			os.WriteFile(filepath.Join(dir, "Taskfile.yml"), []byte("version: '3'\n"+inc), 0o644)
		} else {
			os.WriteFile(filepath.Join(dir, "Taskfile.yml"), []byte("version: '3'\nincludes:\n  n: ./mid.yml\n"), 0o644)
			os.WriteFile(filepath.Join(dir, "mid.yml"), []byte("version: '3'\n"+inc), 0o644)
		}
		node, nerr := NewRootNode(filepath.Join(dir, "Taskfile.yml"), dir, true, 0)
		if nerr != nil {
			fmt.Println("ZZ-NOTE root node:", nerr)
			return
		}
		r := NewReader(WithInsecure(true), WithTempDir(filepath.Join(dir, ".task")), WithOffline(!notTrusted),
			WithPromptFunc(func(string) error { return fmt.Errorf("declined") }))
		_, err := r.Read(context.Background(), node)
		te, ok := err.(errors.TaskError)
		fmt.Printf("ZZ-NOTE err=%T %v\n", err, err)
		zz.Assert(err != nil && ok && te.Code() == want, "refused-remote-taskfile-keeps-its-error-class-through-includes")
		return
	}
	ver := &semver.Version{}
	mk := func(loc, next string) func() *ast.Taskfile {
		return func() *ast.Taskfile {
			tf := zzTaskfileWith(ver, "t", loc)
			tf.Includes.Set("n", &ast.Include{Namespace: "n", Taskfile: next})
			return tf
		}
	}
	zzReadErrors = map[string]error{"https://h/remote.yml": refusal}
	if depth == 1 {
		zzASTs = map[string]func() *ast.Taskfile{"/p/Taskfile.yml": mk("/p/Taskfile.yml", "https://h/remote.yml")}
	} else {
		zzASTs = map[string]func() *ast.Taskfile{
			"/p/Taskfile.yml": mk("/p/Taskfile.yml", "/p/mid.yml"),
			"/p/mid.yml":      mk("/p/mid.yml", "https://h/remote.yml"),
		}
	}
	_, err := NewReader().Read(context.Background(), &zzFileNode{BaseNode: NewBaseNode(""), loc: "/p/Taskfile.yml"})
	zzReadErrors = nil
	te, ok := err.(errors.TaskError)
	zz.Assert(err != nil && ok && te.Code() == want, "refused-remote-taskfile-keeps-its-error-class-through-includes")
	if zz.Twin() {
		zz.Assert(false, "twin")
	}
	zz.Reach("end")
}

// messages show paths relative to the working directory: not the subject here
//
//gosmt:stub github.com/go-task/task/v3/internal/filepathext.TryAbsToRel
func zzTryAbsToRelIdentity(abs string) string { return abs }
