package taskfile

import (
	"context"
	"io/fs"
	"os"
	"path/filepath"

	"github.com/Masterminds/semver/v3"

	zz "github.com/go-task/task/v3/internal/zzsym"
	"github.com/go-task/task/v3/taskfile/ast"
)

// ---- reading is stubbed: files are pre-built ASTs handed out by location --------------------

var zzASTs map[string]func() *ast.Taskfile

type zzFileNode struct {
	*BaseNode
	loc string
}

func (n *zzFileNode) Read() ([]byte, error)                      { return nil, nil }
func (n *zzFileNode) Location() string                           { return n.loc }
func (n *zzFileNode) ResolveEntrypoint(e string) (string, error) { return e, nil }
func (n *zzFileNode) ResolveDir(d string) (string, error)        { return d, nil }

//gosmt:stub github.com/go-task/task/v3/taskfile.NewNode
func zzNewNode(entrypoint string, dir string, insecure bool, opts ...NodeOption) (Node, error) {
	if zzMissing[entrypoint] {
		return nil, &fs.PathError{Op: "stat", Path: entrypoint, Err: fs.ErrNotExist}
	}
	return &zzFileNode{BaseNode: NewBaseNode(dir, opts...), loc: entrypoint}, nil
}

// zzMissing: locations for which no file exists
var zzMissing map[string]bool

//gosmt:stub (*github.com/go-task/task/v3/taskfile.Reader).readNode
func zzReadNode(r *Reader, ctx context.Context, node Node) (*ast.Taskfile, error) {
	if err, ok := zzReadErrors[node.Location()]; ok {
		return nil, err
	}
	return zzASTs[node.Location()](), nil
}

// zzReadErrors: locations whose reading fails with the given error
var zzReadErrors map[string]error

//gosmt:stub os.Environ
func zzEnviron() []string {
	if zzEnvironList != nil {
		return append([]string{}, zzEnvironList...)
	}
	return []string{"HOME=/h"}
}

// zzEnvironList: the process environment of the harness (nil = just HOME)
var zzEnvironList []string

func zzReadTree() (string, bool) {
	ver := &semver.Version{}
	zzASTs = map[string]func() *ast.Taskfile{
		"/p/Taskfile.yml": func() *ast.Taskfile {
			tf := &ast.Taskfile{Version: ver, Vars: ast.NewVars(), Env: ast.NewVars(), Tasks: ast.NewTasks(), Includes: ast.NewIncludes()}
			// one file included twice by the same parent, under two namespaces
			tf.Includes.Set("a", &ast.Include{Namespace: "a", Taskfile: "/p/inc.yml"})
			tf.Includes.Set("b", &ast.Include{Namespace: "b", Taskfile: "/p/inc.yml"})
			return tf
		},
		"/p/inc.yml": func() *ast.Taskfile {
			tf := &ast.Taskfile{Version: ver, Vars: ast.NewVars(), Env: ast.NewVars(), Tasks: ast.NewTasks(), Includes: ast.NewIncludes()}
			tf.Tasks.Set("x", &ast.Task{Task: "x", Location: &ast.Location{Taskfile: "/p/inc.yml"}})
			return tf
		},
	}
	r := NewReader()
	g, err := r.Read(context.Background(), &zzFileNode{BaseNode: NewBaseNode(""), loc: "/p/Taskfile.yml"})
	if err != nil {
		return "", false
	}
	tf, err := g.Merge()
	if err != nil || tf == nil {
		return "", false
	}
	order := ""
	for name := range tf.Tasks.Keys(nil) {
		order += name + ","
	}
	return order, true
}

// ZZ_C09_Reader (self-composition): reading the same tree twice - the reader's
// goroutines scheduled independently each time - gives the same task order.
func ZZ_C09_Reader() {
	if zz.Native() {
		// natively: real files, the real reader, repeated loads
		dir, _ := os.MkdirTemp("", "zzc09")
		defer os.RemoveAll(dir)
		os.WriteFile(filepath.Join(dir, "Taskfile.yml"), []byte("version: '3'\nincludes:\n  a: ./inc.yml\n  b: ./inc.yml\n"), 0o644)
		os.WriteFile(filepath.Join(dir, "inc.yml"), []byte("version: '3'\ntasks:\n  x:\n    cmds: [echo x]\n"), 0o644)
		load := func() string {
			node, err := NewRootNode(filepath.Join(dir, "Taskfile.yml"), dir, false, 0)
			if err != nil {
				return "error: " + err.Error()
			}
			g, err := NewReader().Read(context.Background(), node)
			if err != nil {
				return "error: " + err.Error()
			}
			tf, err := g.Merge()
			if err != nil {
				return "error: " + err.Error()
			}
			order := ""
			for name := range tf.Tasks.Keys(nil) {
				order += name + ","
			}
			return order
		}
		first := load()
		for k := 0; k < 200; k++ {
			zz.Assert(load() == first, "same-task-order-on-every-load/one-file-included-twice-by-one-parent")
		}
		return
	}
	o1, ok1 := zzReadTree()
	o2, ok2 := zzReadTree()
	zz.Assert(ok1 && ok2, "load-succeeds")
	zz.Assert(o1 == o2, "same-task-order-on-every-load/one-file-included-twice-by-one-parent")
	if zz.Twin() {
		zz.Assert(false, "twin")
	}
	zz.Reach("end")
}
