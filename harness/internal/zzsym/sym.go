// Package zzsym is the harness vocabulary of the gosmt engine (the Go analogue
// of CBMC's nondet_* / __CPROVER_assume). The functions have no bodies here:
// the symbolic executor intercepts them. For native replay this file is
// replaced (go build -overlay) by /verif/native/sym_native.go.
package zzsym

// Event is one entry of the observation trace (zz.Emit).
type Event struct {
	Kind string
	ID   string
	Val  int
	G    int
}

func Bool(name string) bool
func Int(name string, lo, hi int) int
func Uint8(name string) uint8
func Str(name string, maxLen int, alphabet string) string

// Choose returns a concrete value in 0..n-1; the executor forks on every
// solver-feasible value.
func Choose(name string, n int) int
func Assume(c bool)
func IsAssumeFalse(r any) bool
func Assert(c bool, label string)
func Reach(label string)
func Note(s string)

// Try runs f; Kill (symbolic run only) ends the invocation running inside the innermost Try
// like kill -9 would: no deferred function of the code under test runs, its goroutines are
// dropped, and Try returns true.
func Try(f func()) bool
func Kill()

// Param returns a harness parameter (a bound) set by the check registry.
func Param(name string, def int) int

// Native reports whether the harness runs natively (replay) or symbolically.
func Native() bool

// Twin is true in the vacuity-twin run, in which final assertions are negated.
func Twin() bool

// Concurrency.
func Yield()
func Emit(kind, id string, val int)
func Trace() []Event

// ModelTrace is the observation trace of the counterexample being replayed
// (native runs only; nil in the symbolic run).
func ModelTrace() []string

// DeepEqual compares two values structurally, following pointers.
func DeepEqual(a, b any) bool

// Concrete forks until s has a single feasible value within the given candidates
// and returns the candidate chosen (s == result is added to the path condition).
func OneOf(s string, candidates ...string) string
