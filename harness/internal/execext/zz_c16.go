package execext

import (
	"errors"
	"fmt"
	"io"

	"mvdan.cc/sh/v3/expand"
	"mvdan.cc/sh/v3/syntax"

	zz "github.com/go-task/task/v3/internal/zzsym"
)

// The shell word parser and the expansion are mvdan/sh code (not encoded). Contract of
// the stubs: parsing a text yields any number of words (0, 1 or 2 here: a comment or blank
// text has none) or an error; expanding a word yields some string or an error.

var zzWords int

//gosmt:stub (*mvdan.cc/sh/v3/syntax.Parser).Words
func zzParserWords(p *syntax.Parser, r io.Reader, fn func(*syntax.Word) bool) error {
	if zz.Bool("parse_error") {
		return errors.New("zz: parse error")
	}
	for k := 0; k < zzWords; k++ {
		if !fn(&syntax.Word{}) {
			break
		}
	}
	return nil
}

//gosmt:stub mvdan.cc/sh/v3/expand.Literal
func zzExpandLiteralStub(cfg *expand.Config, w *syntax.Word) (string, error) {
	if w == nil {
		panic("zz: expand.Literal(nil word)")
	}
	if zz.Bool("expand_error") {
		return "", errors.New("zz: expand error")
	}
	return "x", nil
}

//gosmt:stub mvdan.cc/sh/v3/expand.Fields
func zzExpandFieldsStub(cfg *expand.Config, words ...*syntax.Word) ([]string, error) {
	for _, w := range words {
		if w == nil {
			panic("zz: expand.Fields(nil word)")
		}
	}
	return []string{"x"}, nil
}

// zzExpandWitnesses: texts with no word, one word, several words, and unparsable ones.
var zzExpandWitnesses = []string{"", "#x", "\t", "\n", " ", "a", "a b", "'", "$(", "~", "${"}

// ZZ_C16_Expand: ExpandLiteral / ExpandFields (used for a task's dir:, an include's
// taskfile: and dir:, TASK_TEMP_DIR) never panic, whatever the text parses to.
func ZZ_C16_Expand() {
	if zz.Native() {
		// the parser is real here: run the witnesses of every parse outcome
		for _, s := range append([]string{zz.Str("text", 3, "")}, zzExpandWitnesses...) {
			r, err := ExpandLiteral(s)
			f, err2 := ExpandFields(s)
			fmt.Printf("ZZ-NOTE text=%q literal=%q err=%v fields=%q err=%v\n", s, r, err, f, err2)
		}
		return
	}
	s := zz.Str("text", 3, "a #\t~$'")
	zzWords = zz.Choose("words_parsed", 3)
	_, _ = ExpandLiteral(s)
	_, _ = ExpandFields(s)
	if zz.Twin() {
		zz.Assert(false, "twin")
	}
	zz.Reach("end")
}
