package deepcopy

import (
	"time"

	zz "github.com/go-task/task/v3/internal/zzsym"
)

// ZZ_C16_Traverse: every variable value goes through TraverseStringsFunc when it is
// rendered (templater.ReplaceWithExtra). The value is whatever yaml.v3 decodes into an
// `any` (string, int, float, bool, null, list, map, and time.Time for an unquoted
// timestamp) or what a ref: can hold (maps and lists of other element types). No shape may
// make the traversal panic; strings are replaced and everything else is kept.
func ZZ_C16_Traverse() {
	s1, s2 := zz.Str("s1", 2, "ab"), zz.Str("s2", 2, "ab")
	var v any
	kind := zz.Choose("value_shape", 12)
	switch kind {
	case 0:
		v = s1
	case 1:
		v = 3
	case 2:
		v = true
	case 3:
		v = nil
	case 4:
		v = 1.5
	case 5:
		v = []any{s1, 3, nil}
	case 6:
		v = map[string]any{"k": s1, "n": nil, "m": map[string]any{"x": s2}}
	case 7:
		v = time.Time{} // vars: {D: 2024-01-01}
	case 8:
		v = map[string]string{"k": s1} // ref: to a map with string values
	case 9:
		v = []string{s1, s2}
	case 10:
		v = map[string]any{"d": time.Time{}}
	case 11:
		v = map[string]int{"n": 1}
	}
	out, err := TraverseStringsFunc(v, func(s string) (string, error) { return s + "!", nil })
	zz.Assert(err == nil, "no-error")
	switch kind {
	case 0:
		zz.Assert(out == any(s1+"!"), "strings-are-replaced")
	case 1:
		zz.Assert(out == any(3), "other-values-are-kept")
	case 3:
		zz.Assert(out == nil, "other-values-are-kept")
	case 5:
		l, ok := out.([]any)
		zz.Assert(ok && len(l) == 3 && l[0] == any(s1+"!") && l[1] == any(3) && l[2] == nil, "lists-are-traversed")
	case 9:
		l, ok := out.([]string)
		zz.Assert(ok && len(l) == 2 && l[0] == s1+"!" && l[1] == s2+"!", "lists-are-traversed")
	}
	if zz.Twin() {
		zz.Assert(false, "twin")
	}
	zz.Reach("end")
}
