package output

import (
	"errors"
	"fmt"
	"io"
	"strings"
	"sync"
	"time"

	"github.com/fatih/color"

	"github.com/go-task/task/v3/internal/logger"
	"github.com/go-task/task/v3/internal/templater"
	zz "github.com/go-task/task/v3/internal/zzsym"
	"github.com/go-task/task/v3/taskfile/ast"
)

// The colour machinery (fatih/color) is not the subject: a colour's print function formats
// plainly. Logger.FOutf itself runs from source.
//
//gosmt:stub (*github.com/fatih/color.Color).FprintfFunc
func zzFprintfFunc(c *color.Color) func(w io.Writer, format string, a ...interface{}) {
	return func(w io.Writer, format string, a ...interface{}) {
		_, _ = fmt.Fprintf(w, format, a...)
	}
}

//gosmt:stub github.com/fatih/color.New
func zzColorNew(value ...color.Attribute) *color.Color { return &color.Color{} }

// zzShared is the shared output stream: every Write call is one atomic append (as
// for an *os.File) and a scheduling point; the harness sees the sequence of calls.
type zzShared struct {
	mu     sync.Mutex
	writes []string
}

func (s *zzShared) Write(p []byte) (int, error) {
	if zz.Native() {
		time.Sleep(2 * time.Millisecond) // widen the window between two writes of one writer
		s.mu.Lock()
		s.writes = append(s.writes, string(p))
		s.mu.Unlock()
		return len(p), nil
	}
	zz.Emit("W", "", 0)
	s.writes = append(s.writes, string(p))
	return len(p), nil
}

func zzChunks(id string, letter string) []string {
	max := zz.Param("maxchunks", 2)
	if id != "A" && zz.Param("maxchunks_others", 0) > 0 { // (a deeper bound for one writer only)
		max = zz.Param("maxchunks_others", 0)
	}
	n := zz.Choose("nchunks."+id, max+1)
	var out []string
	// chunk shapes: partial line, whole line, line end + partial line, empty line, two lines, empty write
	// ... and a line longer than the buffer of a bufio.Writer (4096 bytes)
	shapes := []string{letter, letter + "\n", "\n" + letter, "\n", letter + "\n" + letter + "\n", "", strings.Repeat(letter, 5000) + "\n"}
	for k := 0; k < n; k++ {
		ns := len(shapes)
		if k > 0 {
			ns-- // (the long line only as the first chunk: the later ones multiply the schedules)
		}
		out = append(out, shapes[zz.Choose(fmt.Sprintf("chunk.%s.%d", id, k), ns)])
	}
	return out
}

func zzRunBoth(f func(k int)) {
	if zz.Native() {
		var wg sync.WaitGroup
		for k := 0; k < 2; k++ {
			wg.Add(1)
			go func(k int) { defer wg.Done(); f(k) }(k)
		}
		wg.Wait()
		return
	}
	var wg sync.WaitGroup
	for k := 0; k < 2; k++ {
		wg.Add(1)
		go func(k int) { defer wg.Done(); f(k) }(k)
	}
	wg.Wait()
}

// ZZ_C17_Group: with output: group everything a command wrote appears as one
// contiguous block begin+bytes+end, never interleaved with another command's
// output, present iff the command wrote something and (not error_only or failed).
func ZZ_C17_Group() {
	sink := &zzShared{}
	ids := []string{"A", "B"}
	letters := []string{"a", "b"}
	errorOnly := zz.Bool("error_only")
	withMarks := zz.Bool("begin_end_set")
	var chunks [2][]string
	var failed [2]bool
	for k := range ids {
		chunks[k] = zzChunks(ids[k], letters[k])
		failed[k] = zz.Bool("failed." + ids[k])
	}
	cache := &templater.Cache{Vars: ast.NewVars()}
	zzRunBoth(func(k int) {
		g := Group{ErrorOnly: errorOnly}
		if withMarks {
			g.Begin, g.End = "<"+ids[k], ">"+ids[k]
		}
		out, _, closer := g.WrapWriter(sink, sink, "", cache)
		for _, c := range chunks[k] {
			_, _ = io.WriteString(out, c)
		}
		var err error
		if failed[k] {
			err = errors.New("exit status 1")
		}
		_ = closer(err)
	})
	all := strings.Join(sink.writes, "")
	for k := range ids {
		body := strings.Join(chunks[k], "")
		want := ""
		if body != "" && (!errorOnly || failed[k]) {
			want = body
			if withMarks {
				want = "<" + ids[k] + "\n" + body + ">" + ids[k] + "\n"
			}
		}
		if want == "" {
			zz.Assert(!strings.Contains(all, letters[k]) && !strings.Contains(all, "<"+ids[k]), "group/no-block-when-nothing-to-show/"+ids[k])
			continue
		}
		// the block is contiguous in the stream: no foreign write in between
		zz.Assert(strings.Contains(all, want), "group/one-contiguous-block-per-command")
		zz.Assert(strings.Count(all, letters[k]) == strings.Count(body, letters[k]), "group/no-byte-lost-or-duplicated")
	}
	if zz.Twin() {
		zz.Assert(false, "twin")
	}
	zz.Reach("end")
}

// ZZ_C17_Prefixed: with output: prefixed every line a command wrote appears exactly
// once, whole, behind its task's prefix, for every interleaving of the writes.
func ZZ_C17_Prefixed() {
	sink := &zzShared{}
	ids := []string{"A", "B"}
	if zz.Bool("prefix_holds_a_percent_sign") {
		ids = []string{"A-100%", "B%s"} // a prefix is text, not a format
	}
	letters := []string{"a", "b"}
	var chunks [2][]string
	for k := range ids {
		chunks[k] = zzChunks(ids[k], letters[k])
	}
	p := NewPrefixed(&logger.Logger{Stdout: io.Discard, Stderr: io.Discard})
	cache := &templater.Cache{Vars: ast.NewVars()}
	zzRunBoth(func(k int) {
		out, _, closer := p.WrapWriter(sink, sink, ids[k], cache)
		for _, c := range chunks[k] {
			_, _ = io.WriteString(out, c)
		}
		_ = closer(nil)
	})
	all := strings.Join(sink.writes, "")
	for k := range ids {
		body := strings.Join(chunks[k], "")
		if body != "" && !strings.HasSuffix(body, "\n") {
			body += "\n"
		}
		// expected lines of this command, in order
		rest := body
		pos := 0
		nlines := 0
		for rest != "" {
			cut := strings.Index(rest, "\n")
			line := rest[:cut+1]
			rest = rest[cut+1:]
			if line == "\n" && false {
				continue
			}
			want := "[" + ids[k] + "] " + line
			at := strings.Index(all[pos:], want)
			zz.Assert(at >= 0, "prefixed/every-line-whole-behind-its-prefix-in-order")
			if at < 0 {
				break
			}
			pos += at + len(want)
			nlines++
		}
		zz.Assert(strings.Count(all, "["+ids[k]+"] ") == nlines, "prefixed/no-line-lost-or-duplicated")
		zz.Assert(strings.Count(all, letters[k]) == strings.Count(body, letters[k]), "prefixed/no-byte-lost-or-duplicated")
	}
	if zz.Twin() {
		zz.Assert(false, "twin")
	}
	zz.Reach("end")
}

// ZZ_C18_PipelineWriters: one command whose output arrives from two goroutines at once (the
// two sides of a shell pipeline writing to stderr, a background job, stdout and stderr of
// an external command: both are the same wrapped writer). The wrapper's own buffer is shared
// state of Task's code: the two writes must be synchronised (race check), and nothing either
// side wrote may be lost.
func ZZ_C18_PipelineWriters() {
	sink := &zzShared{}
	grouped := zz.Bool("output_group")
	cache := &templater.Cache{Vars: ast.NewVars()}
	var out, errw io.Writer
	var closer CloseFunc
	if grouped {
		out, errw, closer = Group{}.WrapWriter(sink, sink, "", cache)
	} else {
		p := NewPrefixed(&logger.Logger{Stdout: io.Discard, Stderr: io.Discard})
		out, errw, closer = p.WrapWriter(sink, sink, "T", cache)
	}
	ws := []io.Writer{out, errw}
	lines := []string{"a\n", "b\n"}
	zzRunBoth(func(k int) {
		n := 1
		if zz.Native() {
			n = 300 // many writes, so that the race detector sees two of them overlap
		}
		for j := 0; j < n; j++ {
			_, _ = io.WriteString(ws[k], lines[k])
		}
	})
	_ = closer(nil)
	all := strings.Join(sink.writes, "")
	if !zz.Native() {
		zz.Assert(strings.Count(all, "a") == 1 && strings.Count(all, "b") == 1, "pipeline/no-byte-lost-or-duplicated")
	}
	if zz.Twin() {
		zz.Assert(false, "twin")
	}
	zz.Reach("end")
}
