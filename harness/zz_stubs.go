package task

import (
	"context"
	"io"
	"strings"

	"github.com/go-task/task/v3/internal/execext"
	"github.com/go-task/task/v3/internal/experiments"
	zz "github.com/go-task/task/v3/internal/zzsym"
)

// Shared environment stubs of the root-package harnesses (symbolic run only; in a
// native replay the real functions run).

// zzRun is the shell: every harness installs the command semantics it needs.
var zzRun func(ctx context.Context, opts *execext.RunCommandOptions) error

//gosmt:stub github.com/go-task/task/v3/internal/execext.RunCommand
func zzRunCommand(ctx context.Context, opts *execext.RunCommandOptions) error {
	if zzRun == nil {
		return nil
	}
	return zzRun(ctx, opts)
}

// zzEchoShell understands "echo <text>": writes text and a newline to Stdout.
func zzEchoShell(ctx context.Context, opts *execext.RunCommandOptions) error {
	if strings.HasPrefix(opts.Command, "echo ") && opts.Stdout != nil {
		_, _ = io.WriteString(opts.Stdout, strings.TrimPrefix(opts.Command, "echo ")+"\n")
	}
	return nil
}

//gosmt:stub github.com/go-task/task/v3/internal/execext.ExpandLiteral
func zzExpandLiteral(s string) (string, error) { return s, nil }

// process environment: a list of NAME=value entries installed by the harness
var zzEnviron []string

//gosmt:stub os.Environ
func zzOsEnviron() []string { return append([]string{}, zzEnviron...) }

//gosmt:stub os.LookupEnv
func zzLookupEnv(k string) (string, bool) {
	for _, e := range zzEnviron {
		if strings.HasPrefix(e, k+"=") {
			return strings.TrimPrefix(e, k+"="), true
		}
	}
	return "", false
}

//gosmt:stub os.Getenv
func zzGetenv(k string) string { v, _ := zzLookupEnv(k); return v }

// zzSetExperiment switches an experiment on or off (works natively as well: the
// experiment variables are exported package state).
func zzSetExperiment(x *experiments.Experiment, name string, on bool) {
	v := 0
	if on {
		v = 1
	}
	*x = experiments.Experiment{Name: name, AllowedValues: []int{1}, Value: v}
}

var _ = zz.Native
