package task

import (
	"io"

	zz "github.com/go-task/task/v3/internal/zzsym"
	"github.com/go-task/task/v3/taskfile/ast"
)

// ZZ_C16_Compile: compiling and guarding a task never panics, whatever null
// entries a Taskfile put into its lists (yaml decodes `[null]` into a nil element).
func ZZ_C16_Compile() {
	zzRun = zzEchoShell
	zzEnviron = []string{"HOME=/h"}
	t := &ast.Task{Task: "t", Location: &ast.Location{Taskfile: "/d/f.yml"}, Vars: ast.NewVars(), Env: ast.NewVars(), Method: "none"}
	which := zz.Choose("null_entry_in", 12)
	pick := func(k int) bool { return which == k }
	t.Cmds = []*ast.Cmd{{Cmd: "echo a"}}
	if pick(1) {
		t.Cmds = append(t.Cmds, nil)
	}
	t.Deps = []*ast.Dep{}
	if pick(2) {
		t.Deps = append(t.Deps, nil)
	}
	if pick(3) {
		t.Sources = []*ast.Glob{nil}
	}
	if pick(4) {
		t.Generates = []*ast.Glob{nil}
	}
	if pick(5) {
		t.Preconditions = []*ast.Precondition{nil}
	}
	if pick(6) {
		t.Platforms = []*ast.Platform{nil}
	}
	if pick(7) {
		t.Requires = &ast.Requires{Vars: []*ast.VarsWithValidation{nil}}
	}
	if pick(8) {
		t.Requires = &ast.Requires{}
	}
	if pick(9) {
		t.Sources = []*ast.Glob{nil}
		t.Platforms = []*ast.Platform{nil}
	}
	if pick(10) || pick(11) {
		// a loop over the task's own sources / generates, which hold a null entry
		t.Sources = []*ast.Glob{nil, {Glob: "a.src"}}
		t.Generates = []*ast.Glob{nil, {Glob: "out"}}
		from := "sources"
		if pick(11) {
			from = "generates"
		}
		t.Cmds = append(t.Cmds, &ast.Cmd{Cmd: "echo {{.ITEM}}", For: &ast.For{From: from}})
		t.Deps = append(t.Deps, &ast.Dep{Task: "t2", For: &ast.For{From: from}})
	}
	tf := &ast.Taskfile{Vars: ast.NewVars(), Env: ast.NewVars(), Tasks: ast.NewTasks(), Run: "always", Method: "none"}
	tf.Tasks.Set("t", t)
	e := &Executor{Taskfile: tf, Stdout: io.Discard, Stderr: io.Discard, Silent: true, Dry: true}
	e.Logger = zzQuietLogger()
	e.Compiler = &Compiler{Dir: "", TaskfileEnv: tf.Env, TaskfileVars: tf.Vars, Logger: e.Logger}
	e.setupConcurrencyState()
	c := t.DeepCopy()
	_ = c
	ct, err := e.FastCompiledTask(&Call{Task: "t"})
	if err == nil && ct != nil {
		_ = shouldRunOnCurrentPlatform(ct.Platforms)
		_ = e.areTaskRequiredVarsSet(ct)
		_ = e.areTaskRequiredVarsAllowedValuesSet(ct)
	}
	ct2, err2 := e.CompiledTask(&Call{Task: "t"})
	if err2 == nil && ct2 != nil {
		_ = shouldRunOnCurrentPlatform(ct2.Platforms)
		_ = e.areTaskRequiredVarsSet(ct2)
	}
	if zz.Twin() {
		zz.Assert(false, "twin")
	}
	zz.Reach("end")
}
