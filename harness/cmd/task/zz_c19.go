package main

import (
	"context"
	"fmt"
	"io/fs"
	"os"
	"strings"
	"time"

	"github.com/Masterminds/semver/v3"

	"github.com/spf13/pflag"
	"mvdan.cc/sh/v3/interp"
	"mvdan.cc/sh/v3/syntax"

	task "github.com/go-task/task/v3"
	"github.com/go-task/task/v3/internal/execext"
	"github.com/go-task/task/v3/internal/flags"
	"github.com/go-task/task/v3/taskfile"
	"github.com/go-task/task/v3/taskfile/ast"
	zz "github.com/go-task/task/v3/internal/zzsym"
)

// ---- file-system model for the --init block ----------------------------------------------

type zzFI struct {
	name string
	dir  bool
}

func (f zzFI) Name() string       { return f.name }
func (f zzFI) Size() int64        { return 0 }
func (f zzFI) Mode() fs.FileMode  { return 0 }
func (f zzFI) ModTime() time.Time { return time.Time{} }
func (f zzFI) IsDir() bool        { return f.dir }
func (f zzFI) Sys() any           { return nil }

var (
	zzFiles  map[string]bool // path -> is directory
	zzWrites []string
	zzArgv   []string
	zzDash   int
)

//gosmt:stub os.Getwd
func zzGetwd() (string, error) { return "/wd", nil }

//gosmt:stub os.Stat
func zzStat(name string) (fs.FileInfo, error) {
	if d, ok := zzFiles[name]; ok {
		return zzFI{name: name, dir: d}, nil
	}
	return nil, fs.ErrNotExist
}

//gosmt:stub os.WriteFile
func zzWriteFile(name string, data []byte, perm os.FileMode) error {
	zzWrites = append(zzWrites, name)
	zzFiles[name] = false
	return nil
}

//gosmt:stub github.com/spf13/pflag.Args
func zzPflagArgs() []string { return zzArgv }

//gosmt:stub (*github.com/spf13/pflag.FlagSet).ArgsLenAtDash
func zzArgsLenAtDash(f *pflag.FlagSet) int { return zzDash }

//gosmt:stub mvdan.cc/sh/v3/syntax.Quote
func zzQuote(s string, lang syntax.LangVariant) (string, error) { return "'" + s + "'", nil }

//gosmt:stub github.com/go-task/task/v3/internal/filepathext.TryAbsToRel
func zzTryAbsToRel(abs string) string { return abs }

var zzInitNames = []string{"", "sub.yml", ".yaml", "dir", "x/y.yml", "x/.yml", ".", "x/."}

func zzInitTarget(pos string) string {
	switch pos {
	case "":
		return "/wd/Taskfile.yml"
	case ".yaml":
		return "/wd/Taskfile.yaml"
	case "dir":
		return "/wd/dir/Taskfile.yml"
	case "x/.yml": // an extension-only name keeps its directory
		return "/wd/x/Taskfile.yml"
	case ".": // the current directory is a directory, not an extension
		return "/wd/Taskfile.yml"
	case "x/.":
		return "/wd/x/Taskfile.yml"
	}
	return "/wd/" + pos
}

// ZZ_C19_Init: `task --init [path] [-- extra]` writes the new Taskfile where the
// positional argument says (never where an argument after "--" says) and never
// overwrites an existing file.
func ZZ_C19_Init() {
	pos := zzInitNames[zz.Choose("positional", len(zzInitNames))]
	dash := zz.Bool("dash")
	post := zzInitNames[zz.Choose("afterdash", len(zzInitNames))]
	wdHasTaskfile := zz.Bool("wd_has_taskfile")
	targetExists := zz.Bool("target_exists")
	zz.Assume(dash || post == "")
	zzFiles = map[string]bool{"/wd": true, "/wd/dir": true, "/wd/x": true}
	if wdHasTaskfile {
		zzFiles["/wd/Taskfile.yml"] = false
	}
	want := zzInitTarget(pos)
	if targetExists {
		zzFiles[want] = false
	}
	_, existed := zzFiles[want]
	zzWrites = nil
	zzArgv = nil
	if pos != "" {
		zzArgv = append(zzArgv, pos)
	}
	zzDash = -1
	if dash {
		zzDash = len(zzArgv)
		if post != "" {
			zzArgv = append(zzArgv, post)
		}
	}
	flags.Init = true
	flags.Silent = zz.Bool("silent")
	err := run()
	if existed {
		zz.Assert(err != nil && len(zzWrites) == 0, "init-never-overwrites")
	} else {
		zz.Assert(err == nil && len(zzWrites) == 1 && zzWrites[0] == want, "init-writes-to-positional-path")
	}
	if zz.Twin() {
		zz.Assert(false, "twin")
	}
	zz.Reach("end")
}

// ---- the whole CLI path: run() with the Taskfile reading and the shell replaced ----------

var (
	zzTF       *ast.Taskfile
	zzCommands []string
)

//gosmt:stub (*github.com/go-task/task/v3.Executor).getRootNode
func zzGetRootNode(e *task.Executor) (taskfile.Node, error) {
	e.Dir = "/wd" // where the Taskfile was found (walking up from the invocation directory)
	return nil, nil
}

//gosmt:stub (*github.com/go-task/task/v3.Executor).readTaskfile
func zzReadTaskfile(e *task.Executor, node taskfile.Node) error {
	e.Taskfile = zzTF
	zzSeenDry, zzSawExecutor = e.Dry, true
	return nil
}

//gosmt:stub (*github.com/go-task/task/v3.Executor).setupFuzzyModel
func zzSetupFuzzyModel(e *task.Executor) {}

//gosmt:stub os.MkdirAll
func zzMkdirAll(path string, perm os.FileMode) error { return nil }

//gosmt:stub (*github.com/go-task/task/v3.Executor).doVersionChecks
func zzDoVersionChecks(e *task.Executor) error { return nil }

//gosmt:stub (*github.com/go-task/task/v3.Executor).InterceptInterruptSignals
func zzIntercept(e *task.Executor) {}

//gosmt:stub github.com/go-task/task/v3/internal/execext.RunCommand
func zzRunCommand(ctx context.Context, opts *execext.RunCommandOptions) error {
	if st := zzCmdStatus[opts.Command]; st != 0 {
		return interp.NewExitStatus(st)
	}
	if !strings.HasPrefix(opts.Command, "pre ") {
		zzCommands = append(zzCommands, opts.Command)
	}
	return nil
}

//gosmt:stub github.com/go-task/task/v3/internal/execext.ExpandLiteral
func zzExpandLiteral(s string) (string, error) { return s, nil }

//gosmt:stub os.Environ
func zzOsEnviron() []string { return []string{"HOME=/h"} }

//gosmt:stub os.LookupEnv
func zzLookupEnv(k string) (string, bool) { return "", false }

//gosmt:stub os.Getenv
func zzGetenv(k string) string { return zzEnvVars[k] }

var zzEnvVars map[string]string

const zzCLIAlphabet = "a='\"$\\ *{}."

// ZZ_C19_CLI: cmd/task's run() from the parsed command line to the command handed to the
// shell, for `task show NAME=value -- post...`, with the Taskfile
//
//	tasks: {show: {cmds: ["probe {{.CLI_ARGS}}", "probe2 {{.NAME}}", "probe3 {{shellQuote .NAME}} {{q .NAME}} {{.NAME | q}}"]}}
//
// installed in place of the file reading (getRootNode/readTaskfile stubs). The executed
// commands must be "probe " + the separately quoted forwarded arguments joined by blanks and
// "probe2 " + the text after the first '=' of the assignment, and shellQuote / q (go-task's own
// template function table, built by executing templater's init from funcs.go) apply the
// quoting function to exactly that value: no byte of either is interpreted
// by the variable resolution or the template engine (__tmplsym=1: text reaching the template
// engine is symbolic). The native replay runs the built binary on the solver's argument
// vector and compares what printf receives.
func ZZ_C19_CLI() {
	npost := 1 + zz.Choose("npost", 2)
	var post []string
	for k := 0; k < npost; k++ {
		post = append(post, zz.Str(fmt.Sprintf("post%d", k), zz.Param("arglen", 4), zzCLIAlphabet))
	}
	assign := zz.Bool("assignment")
	val := ""
	if assign {
		val = zz.Str("value", zz.Param("arglen", 4)-1, zzCLIAlphabet)
	}
	zzArgv = []string{"show"}
	if assign {
		zzArgv = append(zzArgv, "NAME="+val)
	}
	zzDash = len(zzArgv)
	zzArgv = append(zzArgv, post...)
	zzTF = &ast.Taskfile{Version: semver.MustParse("3"), Vars: ast.NewVars(), Env: ast.NewVars(), Tasks: ast.NewTasks()}
	// (a deferred command renders its text when it runs: it must see the same bytes)
	cmds := []*ast.Cmd{{Cmd: "probe4 {{.CLI_ARGS}}", Defer: true}, {Cmd: "probe {{.CLI_ARGS}}"}, {Cmd: "probe2 {{.NAME}}"}}
	if assign { // quoting an unset variable is a rendering error
		cmds = append(cmds, &ast.Cmd{Cmd: "probe3 {{shellQuote .NAME}} {{q .NAME}} {{.NAME | q}}"})
	}
	zzTF.Tasks.Set("show", &ast.Task{Task: "show", Location: &ast.Location{Taskfile: "/wd/Taskfile.yml"}, Vars: ast.NewVars(), Env: ast.NewVars(), Cmds: cmds})
	zzCommands = nil
	flags.Init = false
	flags.Silent = true
	err := run()
	want := ""
	for k, a := range post {
		if k > 0 {
			want += " "
		}
		want += "'" + a + "'"
	}
	// the deferred command runs last
	n := len(zzCommands)
	zz.Assert((n > 0 && zzCommands[n-1] == "probe4 "+want) || strings.Contains(val, "{{"), "forwarded-arguments-reach-a-deferred-command-uninterpreted")
	if n > 0 && strings.HasPrefix(zzCommands[n-1], "probe4 ") {
		zzCommands = zzCommands[:n-1]
	}
	if assign {
		q := "'" + val + "'"
		zz.Assert(strings.Contains(val, "{{") || (err == nil && len(zzCommands) == 3 && zzCommands[2] == "probe3 "+q+" "+q+" "+q), "shellQuote-and-q-pass-the-value-as-one-quoted-word")
		if len(zzCommands) == 3 {
			zzCommands = zzCommands[:2]
		}
	}
	ok := err == nil && len(zzCommands) == 2
	if err != nil {
		zz.Note("run: " + err.Error())
	}
	zz.Note(fmt.Sprintf("commands=%d", len(zzCommands)))
	zz.Assert(ok && zzCommands[0] == "probe "+want, "forwarded-arguments-reach-the-command-uninterpreted")
	// A value assigned on the command line is a global variable: like any variable value of a
	// Taskfile it is itself a template (documented semantics), so only template-free values
	// are required to arrive unchanged.
	zz.Assert(ok && (strings.Contains(val, "{{") || zzCommands[1] == "probe2 "+val), "assignment-value-reaches-the-command-split-at-first-equals")
	if zz.Twin() {
		zz.Assert(false, "twin")
	}
	zz.Reach("end")
}

var _ = strings.Contains
