package main

import (
	"io/fs"
	"os"
	"time"

	"github.com/spf13/pflag"
	"mvdan.cc/sh/v3/syntax"

	"github.com/go-task/task/v3/internal/flags"
	zz "github.com/go-task/task/v3/internal/zzsym"
)

// ---- file-system model for the --init block ----------------------------------------------

type zzFI struct {
	name string
	dir  bool
}

func (f zzFI) Name() string       { return f.name }
func (f zzFI) Size() int64        { return 0 }
func (f zzFI) Mode() fs.FileMode  { return 0 }
func (f zzFI) ModTime() time.Time { return time.Time{} }
func (f zzFI) IsDir() bool        { return f.dir }
func (f zzFI) Sys() any           { return nil }

var (
	zzFiles  map[string]bool // path -> is directory
	zzWrites []string
	zzArgv   []string
	zzDash   int
)

//gosmt:stub os.Getwd
func zzGetwd() (string, error) { return "/wd", nil }

//gosmt:stub os.Stat
func zzStat(name string) (fs.FileInfo, error) {
	if d, ok := zzFiles[name]; ok {
		return zzFI{name: name, dir: d}, nil
	}
	return nil, fs.ErrNotExist
}

//gosmt:stub os.WriteFile
func zzWriteFile(name string, data []byte, perm os.FileMode) error {
	zzWrites = append(zzWrites, name)
	zzFiles[name] = false
	return nil
}

//gosmt:stub github.com/spf13/pflag.Args
func zzPflagArgs() []string { return zzArgv }

//gosmt:stub (*github.com/spf13/pflag.FlagSet).ArgsLenAtDash
func zzArgsLenAtDash(f *pflag.FlagSet) int { return zzDash }

//gosmt:stub mvdan.cc/sh/v3/syntax.Quote
func zzQuote(s string, lang syntax.LangVariant) (string, error) { return "'" + s + "'", nil }

//gosmt:stub github.com/go-task/task/v3/internal/filepathext.TryAbsToRel
func zzTryAbsToRel(abs string) string { return abs }

var zzInitNames = []string{"", "sub.yml", ".yaml", "dir", "x/y.yml"}

func zzInitTarget(pos string) string {
	switch pos {
	case "":
		return "/wd/Taskfile.yml"
	case ".yaml":
		return "/wd/Taskfile.yaml"
	case "dir":
		return "/wd/dir/Taskfile.yml"
	}
	return "/wd/" + pos
}

// ZZ_C19_Init: `task --init [path] [-- extra]` writes the new Taskfile where the
// positional argument says (never where an argument after "--" says) and never
// overwrites an existing file.
func ZZ_C19_Init() {
	pos := zzInitNames[zz.Choose("positional", len(zzInitNames))]
	dash := zz.Bool("dash")
	post := zzInitNames[zz.Choose("afterdash", len(zzInitNames))]
	wdHasTaskfile := zz.Bool("wd_has_taskfile")
	targetExists := zz.Bool("target_exists")
	zz.Assume(dash || post == "")
	zzFiles = map[string]bool{"/wd": true, "/wd/dir": true, "/wd/x": true}
	if wdHasTaskfile {
		zzFiles["/wd/Taskfile.yml"] = false
	}
	want := zzInitTarget(pos)
	if targetExists {
		zzFiles[want] = false
	}
	_, existed := zzFiles[want]
	zzWrites = nil
	zzArgv = nil
	if pos != "" {
		zzArgv = append(zzArgv, pos)
	}
	zzDash = -1
	if dash {
		zzDash = len(zzArgv)
		if post != "" {
			zzArgv = append(zzArgv, post)
		}
	}
	flags.Init = true
	flags.Silent = zz.Bool("silent")
	err := run()
	if existed {
		zz.Assert(err != nil && len(zzWrites) == 0, "init-never-overwrites")
	} else {
		zz.Assert(err == nil && len(zzWrites) == 1 && zzWrites[0] == want, "init-writes-to-positional-path")
	}
	if zz.Twin() {
		zz.Assert(false, "twin")
	}
	zz.Reach("end")
}
