package main

import (
	"fmt"

	"mvdan.cc/sh/v3/interp"

	"github.com/Masterminds/semver/v3"

	"github.com/go-task/task/v3"
	"github.com/go-task/task/v3/internal/flags"
	zz "github.com/go-task/task/v3/internal/zzsym"
	"github.com/go-task/task/v3/taskfile/ast"
)

// ---- the exit status of the command: main() with os.Exit recorded -------------------------

type zzExited struct{}

var (
	zzExitCode int
	// zzCmdStatus: exit status of the shell command with this text (absent = 0)
	zzCmdStatus map[string]uint8
)

//gosmt:stub os.Exit
func zzOsExit(code int) {
	zzExitCode = code
	panic(zzExited{})
}

//gosmt:stub github.com/go-task/task/v3/internal/term.IsTerminal
func zzIsTerminal() bool { return false }

// zzRunMain runs main() and returns the status it exits with.
func zzRunMain() (code int) {
	defer func() {
		if r := recover(); r != nil {
			if _, ok := r.(zzExited); !ok {
				panic(r)
			}
			code = zzExitCode
		}
	}()
	zzExitCode = -1
	main()
	return -1 // main always exits
}

func zzNewTask(name string, cmds ...*ast.Cmd) *ast.Task {
	return &ast.Task{Task: name, Location: &ast.Location{Taskfile: "/wd/Taskfile.yml"}, Vars: ast.NewVars(), Env: ast.NewVars(), Cmds: cmds}
}

const (
	zzKindFailingCommand = iota
	zzKindUnknownTask
	zzKindInternalTask
	zzKindMissingRequiredVar
	zzKindEnumMismatch
	zzKindPreconditionFails
	zzKindPromptWithoutTerminal
	zzKindAmbiguousAlias
	zzNKinds
)

var zzKindNames = []string{"failing-command", "unknown-task", "internal-task", "missing-required-var", "enum-mismatch", "failing-precondition", "prompt-without-terminal", "ambiguous-alias"}

// zzExitScenario is shared by the symbolic harness and its native replay (package args):
// it builds the Taskfile of the scenario and says which exit status is documented.
type zzExitScenario struct {
	kind       int
	where      int   // failing command: 0 own first command, 1 own second command, 2 dependency, 3 nested call
	status     uint8 // its exit status (1..255)
	ignoreCmd  bool  // ignore_error on the failing command
	ignoreTask bool  // ignore_error on the task owning the failing command
	exitCode   bool  // --exit-code
	viaDep     bool  // guard kinds: the guarded task is reached through deps of the named task
}

func zzChooseExitScenario() zzExitScenario {
	s := zzExitScenario{kind: zz.Choose("kind", zzNKinds), exitCode: zz.Bool("exit_code_flag")}
	// group 0: failing commands (C03); group 1: guards and lookups (C13)
	zz.Assume((zz.Param("group", 0) == 0) == (s.kind == zzKindFailingCommand))
	if s.kind == zzKindFailingCommand {
		s.where = zz.Choose("failing_command_in", 4)
		s.status = zz.Uint8("status")
		zz.Assume(s.status != 0)
		s.ignoreCmd = zz.Bool("ignore_error_on_command")
		s.ignoreTask = zz.Bool("ignore_error_on_task")
	} else if s.kind != zzKindUnknownTask && s.kind != zzKindInternalTask && s.kind != zzKindAmbiguousAlias {
		s.viaDep = zz.Bool("guarded_task_is_a_dependency")
	}
	return s
}

// want is the documented exit status of the scenario.
func (s zzExitScenario) want() int {
	switch s.kind {
	case zzKindFailingCommand:
		if s.ignoreCmd || s.ignoreTask {
			return 0
		}
		if s.exitCode {
			return int(s.status)
		}
		return 201
	case zzKindUnknownTask:
		return 200
	case zzKindInternalTask:
		return 202
	case zzKindAmbiguousAlias:
		return 203
	case zzKindMissingRequiredVar:
		return 206
	case zzKindEnumMismatch:
		return 207
	case zzKindPromptWithoutTerminal:
		return 205
	}
	return 1 // a failed precondition: generic failure
}

// ZZ_CLI_ExitStatus: main() -> run() -> Executor -> os.Exit for one named task `show`:
// a failing command (own, dependency's, nested call's; symbolic 8-bit status; ignore_error
// on the command or its task; with and without --exit-code) exits 201, or the command's own
// status with --exit-code, or 0 when ignored; the guard and lookup failures exit with their
// documented classes.
func ZZ_CLI_ExitStatus() {
	s := zzChooseExitScenario()
	zzCmdStatus = map[string]uint8{}
	fail := &ast.Cmd{Cmd: "probe fail", IgnoreError: s.ignoreCmd}
	zzCmdStatus["probe fail"] = s.status
	zzCmdStatus["pre fail"] = 1
	ok := func(id string) *ast.Cmd { return &ast.Cmd{Cmd: "probe " + id} }
	zzTF = &ast.Taskfile{Version: semver.MustParse("3"), Vars: ast.NewVars(), Env: ast.NewVars(), Tasks: ast.NewTasks()}
	show := zzNewTask("show", ok("a"), ok("b"))
	name := "show"
	guarded := show
	if s.viaDep {
		guarded = zzNewTask("guarded", ok("g"))
		zzTF.Tasks.Set("guarded", guarded)
		show.Deps = []*ast.Dep{{Task: "guarded"}}
	}
	switch s.kind {
	case zzKindFailingCommand:
		switch s.where {
		case 0:
			show.Cmds = []*ast.Cmd{fail, ok("b")}
			show.IgnoreError = s.ignoreTask
		case 1:
			show.Cmds = []*ast.Cmd{ok("a"), fail}
			show.IgnoreError = s.ignoreTask
		case 2:
			dep := zzNewTask("dep", fail)
			dep.IgnoreError = s.ignoreTask
			zzTF.Tasks.Set("dep", dep)
			show.Deps = []*ast.Dep{{Task: "dep"}}
		case 3:
			sub := zzNewTask("sub", fail)
			sub.IgnoreError = s.ignoreTask
			zzTF.Tasks.Set("sub", sub)
			show.Cmds = []*ast.Cmd{ok("a"), {Task: "sub"}, ok("b")}
		}
	case zzKindUnknownTask:
		name = "shwo"
	case zzKindInternalTask:
		show.Internal = true
	case zzKindAmbiguousAlias:
		name = "s"
		show.Aliases = []string{"s"}
		other := zzNewTask("other", ok("o"))
		other.Aliases = []string{"s"}
		zzTF.Tasks.Set("other", other)
	case zzKindMissingRequiredVar:
		guarded.Requires = &ast.Requires{Vars: []*ast.VarsWithValidation{{Name: "NEEDED"}}}
	case zzKindEnumMismatch:
		guarded.Requires = &ast.Requires{Vars: []*ast.VarsWithValidation{{Name: "MODE", Enum: []string{"dev", "prod"}}}}
		zzTF.Vars.Set("MODE", ast.Var{Value: "test"})
	case zzKindPreconditionFails:
		guarded.Preconditions = []*ast.Precondition{{Sh: "pre fail", Msg: "no"}}
	case zzKindPromptWithoutTerminal:
		guarded.Prompt = []string{"sure?"}
	}
	zzTF.Tasks.Set("show", show)
	zzArgv = []string{name}
	zzDash = -1
	zzCommands = nil
	flags.Init = false
	flags.Silent = true
	flags.ExitCode = s.exitCode
	code := zzRunMain()
	zz.Note(fmt.Sprintf("exit=%d want=%d", code, s.want()))
	zz.Assert(code == s.want(), "exit-status/"+zzKindNames[s.kind])
	if s.kind != zzKindFailingCommand {
		zz.Assert(len(zzCommands) == 0, "no-command-runs/"+zzKindNames[s.kind])
	}
	if zz.Twin() {
		zz.Assert(false, "twin")
	}
	zz.Reach("end")
}

// ZZ_C12_QueryFlagsMeanDry: the history harness checks that an Executor in dry mode leaves
// the project tree alone for --dry and --status; this lemma closes the gap to the command
// line: run() with --dry or --status builds an Executor that is in dry mode (observed where
// the Taskfile would be read), whatever the other flags.
func ZZ_C12_QueryFlagsMeanDry() {
	flags.Dry = zz.Bool("flag_dry")
	flags.Status = zz.Bool("flag_status")
	flags.Force = zz.Bool("flag_force")
	flags.Summary = zz.Bool("flag_summary")
	flags.Init = false
	flags.Silent = true
	zzTF = &ast.Taskfile{Version: semver.MustParse("3"), Vars: ast.NewVars(), Env: ast.NewVars(), Tasks: ast.NewTasks()}
	zzTF.Tasks.Set("show", zzNewTask("show", &ast.Cmd{Cmd: "probe a"}))
	zzArgv = []string{"show"}
	zzDash = -1
	zzCommands = nil
	zzCmdStatus = nil
	zzSeenDry, zzSawExecutor = false, false
	_ = run()
	zz.Assert(zzSawExecutor, "executor-built")
	zz.Assert(zzSeenDry == (flags.Dry || flags.Status), "dry-and-status-put-the-executor-in-dry-mode")
	if flags.Dry || flags.Status {
		zz.Assert(len(zzCommands) == 0, "query-runs-no-command")
	}
	flags.Dry, flags.Status, flags.Force, flags.Summary = false, false, false, false
	if zz.Twin() {
		zz.Assert(false, "twin")
	}
	zz.Reach("end")
}

// ZZ_C05_StateDirFollowsTaskfile: the fingerprint state of a project is kept in one place,
// decided by where the Taskfile is and by TASK_TEMP_DIR, not by the directory Task was started
// in (the Taskfile is found by walking up): otherwise a run from a sub directory right after
// a successful run from the root would execute the commands again. Executor.Setup() from
// source, with the root node found in /wd whatever the invocation directory.
func ZZ_C05_StateDirFollowsTaskfile() {
	inv := []string{"", "/wd", "/wd/sub", "/wd/sub/deeper"}[zz.Choose("invocation_dir", 4)]
	td := []string{"", "tmp", "/abs"}[zz.Choose("TASK_TEMP_DIR", 3)]
	zzEnvVars = map[string]string{"TASK_TEMP_DIR": td}
	zzTF = &ast.Taskfile{Version: semver.MustParse("3"), Vars: ast.NewVars(), Env: ast.NewVars(), Tasks: ast.NewTasks()}
	zzTF.Tasks.Set("show", zzNewTask("show", &ast.Cmd{Cmd: "probe a"}))
	e := task.NewExecutor(task.WithDir(inv), task.WithSilent(true))
	err := e.Setup()
	zzEnvVars = nil
	zz.Assert(err == nil, "setup-succeeds")
	want := map[string]string{"": "/wd/.task", "tmp": "/wd/tmp", "/abs": "/abs/wd"}[td]
	zz.Assert(e.TempDir.Fingerprint == want, "fingerprint-state-lives-with-the-taskfile")
	if zz.Twin() {
		zz.Assert(false, "twin")
	}
	zz.Reach("end")
}

var (
	zzSeenDry     bool
	zzSawExecutor bool
)

var _ = interp.NewExitStatus
