package args

import (
	"context"
	"errors"
	"fmt"
	"io"
	"os"
	"os/exec"
	"path/filepath"
	"strings"

	"github.com/spf13/pflag"
	"mvdan.cc/sh/v3/expand"
	"mvdan.cc/sh/v3/interp"
	"mvdan.cc/sh/v3/shell"
	"mvdan.cc/sh/v3/syntax"

	task "github.com/go-task/task/v3"
	"github.com/go-task/task/v3/internal/execext"
	"github.com/go-task/task/v3/internal/logger"
	"github.com/go-task/task/v3/taskfile/ast"
	zz "github.com/go-task/task/v3/internal/zzsym"
)

// ---- environment stubs (symbolic run only) ---------------------------------------------

var (
	zzArgv []string
	zzDash int
)

//gosmt:stub github.com/spf13/pflag.Args
func zzPflagArgs() []string { return zzArgv }

//gosmt:stub (*github.com/spf13/pflag.FlagSet).ArgsLenAtDash
func zzArgsLenAtDash(f *pflag.FlagSet) int { return zzDash }

// Contract for mvdan/sh quoting: Quote is some injective function whose result
// contains no unquoted blank; the checks below only need that the same function
// is applied to each argument separately.
//
//gosmt:stub mvdan.cc/sh/v3/syntax.Quote
func zzQuote(s string, lang syntax.LangVariant) (string, error) {
	zzQuoteLang = lang
	return "'" + s + "'", nil
}

const zzArgAlphabet = "a='\"$\\ *{"

func zzSetArgv(pre, post []string, dash bool) {
	if zz.Native() {
		pflag.CommandLine = pflag.NewFlagSet("task", pflag.ContinueOnError)
		argv := append([]string{}, pre...)
		if dash {
			argv = append(argv, "--")
			argv = append(argv, post...)
		}
		_ = pflag.CommandLine.Parse(argv)
		return
	}
	zzArgv = append(append([]string{}, pre...), post...)
	zzDash = -1
	if dash {
		zzDash = len(pre)
	}
}

// ZZ_C19_Get: every argument after "--" is quoted on its own and CLI_ARGS is the
// single string joining them; the arguments before "--" are returned untouched.
func ZZ_C19_Get() {
	npre := zz.Choose("npre", 3)
	npost := zz.Choose("npost", zz.Param("maxpost", 3)+1)
	alen := zz.Param("arglen", 4)
	dash := zz.Bool("dash")
	var pre, post []string
	for k := 0; k < npre; k++ {
		pre = append(pre, zz.Str(fmt.Sprintf("pre%d", k), 3, "a=b"))
	}
	if dash {
		for k := 0; k < npost; k++ {
			post = append(post, zz.Str(fmt.Sprintf("post%d", k), alen, zzArgAlphabet))
		}
	}
	if zz.Native() {
		// pflag would treat a leading '-' as a flag; the alphabet has none.
		for _, p := range pre {
			zz.Assume(p != "")
		}
	}
	zzSetArgv(pre, post, dash)
	before, cli, err := Get()
	zz.Assert(err == nil, "no-error")
	zz.Assert(len(before) == len(pre), "positional-count")
	for k := range pre {
		if k < len(before) {
			zz.Assert(before[k] == pre[k], "positional-verbatim")
		}
	}
	var cliAny any = cli
	s, isStr := cliAny.(string)
	zz.Assert(isStr, "CLI_ARGS-is-one-string")
	want := ""
	for k, a := range post {
		q, _ := syntax.Quote(a, syntax.LangBash)
		if k > 0 {
			want += " "
		}
		want += q
	}
	if isStr {
		zz.Assert(s == want, "CLI_ARGS-is-the-quoted-arguments-joined-by-blanks")
		if zz.Native() {
			// trust check of the Quote/Fields contract on this input
			f, ferr := shell.Fields(s, func(string) string { return "" })
			ok := ferr == nil && len(f) == len(post)
			for k := range post {
				ok = ok && k < len(f) && f[k] == post[k]
			}
			zz.Assert(ok, "CLI_ARGS-field-splits-to-the-arguments")
		}
	}
	if zz.Twin() {
		zz.Assert(false, "twin")
	}
	zz.Reach("end")
}

// ZZ_C19_Parse: NAME=value arguments are split at the first '=' only, the others
// become calls in order.
func ZZ_C19_Parse() {
	n := zz.Choose("n", 4)
	var in []string
	for k := 0; k < n; k++ {
		in = append(in, zz.Str(fmt.Sprintf("arg%d", k), zz.Param("arglen", 4), zzArgAlphabet))
	}
	calls, globals := Parse(in...)
	nc := 0
	for _, a := range in {
		if !strings.Contains(a, "=") {
			if nc < len(calls) {
				zz.Assert(calls[nc].Task == a, "call-order-and-name")
			}
			nc++
			continue
		}
		found := false
		for name, v := range globals.All() {
			val, _ := v.Value.(string)
			if name+"="+val == a && !strings.Contains(name, "=") {
				found = true
			}
		}
		// a later assignment to the same name overrides an earlier one
		later := false
		for _, b := range in {
			if b != a && strings.Contains(b, "=") && strings.Contains(a, "=") && strings.SplitN(b, "=", 2)[0] == strings.SplitN(a, "=", 2)[0] {
				later = true
			}
		}
		zz.Assert(found || later, "assignment-split-at-first-equals")
	}
	zz.Assert(len(calls) == nc, "call-count")
	if zz.Twin() {
		zz.Assert(false, "twin")
	}
	zz.Reach("end")
}

// ---- native replay of the CLI-level scenarios (cmd/task harness models) -----------------

func zzBuildCLI() (string, error) {
	dir, err := os.MkdirTemp("", "zzcli")
	if err != nil {
		return "", err
	}
	bin := filepath.Join(dir, "task")
	cmd := exec.Command("go", "build", "-o", bin, "./cmd/task")
	cmd.Dir = "/repo"
	if d := os.Getenv("GOSMT_REPO"); d != "" {
		cmd.Dir = d
	}
	cmd.Env = append(os.Environ(), "GOFLAGS=-mod=mod", "GOPROXY=off", "GOSUMDB=off", "GOTOOLCHAIN=local")
	if out, err := cmd.CombinedOutput(); err != nil {
		return "", fmt.Errorf("%v: %s", err, out)
	}
	return bin, nil
}

var zzInitNames = []string{"", "sub.yml", ".yaml", "dir", "x/y.yml", "x/.yml", ".", "x/."}

// ZZ_C19_Init_native replays a model of cmd/task's ZZ_C19_Init against the built binary.
func ZZ_C19_Init_native() {
	pos := zzInitNames[zz.Choose("positional", len(zzInitNames))]
	dash := zz.Bool("dash")
	post := zzInitNames[zz.Choose("afterdash", len(zzInitNames))]
	wdHasTaskfile := zz.Bool("wd_has_taskfile")
	targetExists := zz.Bool("target_exists")
	bin, err := zzBuildCLI()
	if err != nil {
		fmt.Println("ZZ-NOTE build failed:", err)
		return
	}
	defer os.RemoveAll(filepath.Dir(bin))
	wd, _ := os.MkdirTemp("", "zzwd")
	defer os.RemoveAll(wd)
	os.MkdirAll(filepath.Join(wd, "dir"), 0o755)
	os.MkdirAll(filepath.Join(wd, "x"), 0o755)
	if wdHasTaskfile {
		os.WriteFile(filepath.Join(wd, "Taskfile.yml"), []byte("version: '3'\n"), 0o644)
	}
	want := zzInitTarget(pos)
	if targetExists && want != "Taskfile.yml" {
		os.WriteFile(filepath.Join(wd, want), []byte("keep"), 0o644)
	}
	if targetExists && want == "Taskfile.yml" && !wdHasTaskfile {
		os.WriteFile(filepath.Join(wd, want), []byte("keep"), 0o644)
	}
	existed := zzExists(filepath.Join(wd, want))
	before, _ := os.ReadFile(filepath.Join(wd, want))
	argv := []string{"--init"}
	if pos != "" {
		argv = append(argv, pos)
	}
	if dash {
		argv = append(argv, "--")
		if post != "" {
			argv = append(argv, post)
		}
	}
	cmd := exec.Command(bin, argv...)
	cmd.Dir = wd
	out, runErr := cmd.CombinedOutput()
	fmt.Printf("ZZ-NOTE argv=%q want=%q existed=%v out=%q err=%v\n", argv, want, existed, out, runErr)
	after, _ := os.ReadFile(filepath.Join(wd, want))
	if existed {
		zz.Assert(runErr != nil && string(after) == string(before), "init-never-overwrites")
	} else {
		zz.Assert(runErr == nil && zzExists(filepath.Join(wd, want)), "init-writes-to-positional-path")
	}
}

func zzInitTarget(pos string) string {
	switch pos {
	case "":
		return "Taskfile.yml"
	case ".yaml":
		return "Taskfile.yaml"
	case "dir":
		return "dir/Taskfile.yml"
	case "x/.yml": // an extension-only name keeps its directory
		return "x/Taskfile.yml"
	case ".": // the current directory is a directory, not an extension
		return "Taskfile.yml"
	case "x/.":
		return "x/Taskfile.yml"
	}
	return pos
}

func zzExists(p string) bool { _, err := os.Stat(p); return err == nil }

// ---- the shell dialect: commands must be parsed in the dialect the arguments are quoted for --

var (
	zzQuoteLang  = syntax.LangVariant(-1)
	zzParserLang = syntax.LangBash // mvdan/sh's default when no Variant option is given
)

//gosmt:stub mvdan.cc/sh/v3/syntax.Variant
func zzVariant(l syntax.LangVariant) syntax.ParserOption {
	zzParserLang = l
	return func(*syntax.Parser) {}
}

//gosmt:stub mvdan.cc/sh/v3/syntax.NewParser
func zzNewParser(options ...syntax.ParserOption) *syntax.Parser {
	for _, o := range options {
		o(nil)
	}
	return &syntax.Parser{}
}

//gosmt:stub (*mvdan.cc/sh/v3/syntax.Parser).Parse
func zzParse(p *syntax.Parser, r io.Reader, name string) (*syntax.File, error) {
	return nil, errors.New("zz: parsing is not encoded")
}

//gosmt:stub mvdan.cc/sh/v3/interp.New
func zzInterpNew(opts ...interp.RunnerOption) (*interp.Runner, error) { return nil, nil }

//gosmt:stub mvdan.cc/sh/v3/interp.Params
func zzInterpParams(args ...string) interp.RunnerOption { return nil }

//gosmt:stub mvdan.cc/sh/v3/interp.Env
func zzInterpEnv(env expand.Environ) interp.RunnerOption { return nil }

//gosmt:stub mvdan.cc/sh/v3/interp.ExecHandlers
func zzInterpExecHandlers(m ...func(next interp.ExecHandlerFunc) interp.ExecHandlerFunc) interp.RunnerOption {
	return nil
}

//gosmt:stub mvdan.cc/sh/v3/interp.OpenHandler
func zzInterpOpenHandler(f interp.OpenHandlerFunc) interp.RunnerOption { return nil }

//gosmt:stub mvdan.cc/sh/v3/interp.StdIO
func zzInterpStdIO(in io.Reader, out, err io.Writer) interp.RunnerOption { return nil }

//gosmt:stub mvdan.cc/sh/v3/interp.Dir
func zzInterpDir(path string) interp.RunnerOption { return nil }

//gosmt:stub mvdan.cc/sh/v3/expand.ListEnviron
func zzListEnviron(pairs ...string) expand.Environ { return nil }

//gosmt:stub os.Environ
func zzOsEnviron() []string { return []string{"HOME=/h"} }

//gosmt:stub os.Getwd
func zzGetwd() (string, error) { return "/wd", nil }

// ZZ_C19_Dialect: the quoting of forwarded arguments and the parsing of commands
// use the same shell dialect (mvdan/sh's Quote and Parser are stubs that record it),
// with and without shopt options on the task.
func ZZ_C19_Dialect() {
	if zz.Native() {
		// natively the consequence is observed: a quoted control byte survives a real command
		v := "tab\there"
		q, _ := syntax.Quote(v, syntax.LangBash)
		var out strings.Builder
		err := execext.RunCommand(context.Background(), &execext.RunCommandOptions{Command: "printf %s " + q, Stdout: &out, Stderr: io.Discard})
		zz.Assert(err == nil && out.String() == v, "commands-are-parsed-in-the-dialect-arguments-are-quoted-for")
		return
	}
	zzQuoteLang = syntax.LangVariant(-1)
	zzParserLang = syntax.LangBash
	zzSetArgv([]string{"t"}, []string{zz.Str("arg", 2, zzArgAlphabet)}, true)
	_, _, _ = Get()
	opts := &execext.RunCommandOptions{Command: "x", Stdout: io.Discard, Stderr: io.Discard}
	if zz.Bool("task_has_shopt") {
		opts.BashOpts = []string{"globstar"}
	}
	_ = execext.RunCommand(context.Background(), opts)
	zz.Assert(zzQuoteLang == zzParserLang, "commands-are-parsed-in-the-dialect-arguments-are-quoted-for")
	if zz.Twin() {
		zz.Assert(false, "twin")
	}
	zz.Reach("end")
}

// ZZ_C19_Forward: the whole path of a forwarded argument up to the command line handed to
// the shell: args.Get -> args.Parse -> the CLI_ARGS global (set as cmd/task/task.go does) ->
// the compiler's variable resolution -> the command template "probe {{.CLI_ARGS}}".
// The command the task runs must be "probe " followed by exactly the quoted arguments:
// neither the variable resolution nor the command rendering may interpret their bytes
// (run with __tmplsym=1, so the text that reaches the template engine is symbolic).
// Natively the compiled command is also executed and its argv compared.
func ZZ_C19_Forward() {
	npost := 1 + zz.Choose("npost", 2)
	var post []string
	for k := 0; k < npost; k++ {
		alphabet := zzArgAlphabet + "}."
		if zz.Param("novalue_alphabet", 0) == 1 {
			// the letters of the text the templater removes after rendering (run with
			// __tmplsrc=1, where that clean-up executes from source)
			alphabet = "<no value>"
		}
		post = append(post, zz.Str(fmt.Sprintf("post%d", k), zz.Param("arglen", 4), alphabet))
	}
	zzSetArgv([]string{"show"}, post, true)
	argv, cli, err := Get()
	zz.Assert(err == nil && len(argv) == 1, "no-error")
	calls, globals := Parse(argv...)
	globals.Set("CLI_ARGS", ast.Var{Live: cli}) // cmd/task/task.go: the CLI_ARGS global
	tf := &ast.Taskfile{Vars: ast.NewVars(), Env: ast.NewVars(), Tasks: ast.NewTasks()}
	cmdText := "probe {{.CLI_ARGS}}"
	if zz.Native() {
		cmdText = "printf '[%s]' {{.CLI_ARGS}}"
	}
	tf.Tasks.Set("show", &ast.Task{Task: "show", Cmds: []*ast.Cmd{{Cmd: cmdText}}, Location: &ast.Location{Taskfile: "/d/Taskfile.yml"}, Vars: ast.NewVars(), Env: ast.NewVars()})
	tf.Vars.Merge(globals, nil)
	lg := &logger.Logger{Stdout: io.Discard, Stderr: io.Discard}
	e := &task.Executor{Taskfile: tf, Stdout: io.Discard, Stderr: io.Discard, Logger: lg}
	e.Compiler = &task.Compiler{Dir: "", TaskfileEnv: tf.Env, TaskfileVars: tf.Vars, Logger: lg}
	zz.Assert(len(calls) == 1, "one-call")
	if len(calls) != 1 {
		return
	}
	t, cerr := e.CompiledTask(calls[0])
	ok := cerr == nil && t != nil && len(t.Cmds) == 1
	if zz.Native() {
		want := ""
		for _, a := range post {
			want += "[" + a + "]"
		}
		got := ""
		if ok {
			var out strings.Builder
			rerr := execext.RunCommand(context.Background(), &execext.RunCommandOptions{Command: t.Cmds[0].Cmd, Stdout: &out, Stderr: io.Discard})
			got = out.String()
			ok = rerr == nil
		}
		fmt.Printf("ZZ-NOTE post=%q compile-err=%v got=%q want=%q\n", post, cerr, got, want)
		zz.Assert(ok && got == want, "forwarded-arguments-are-not-interpreted-by-the-template-engine")
		return
	}
	zz.Assert(ok && t.Cmds[0].Cmd == "probe "+cli, "forwarded-arguments-are-not-interpreted-by-the-template-engine")
	if zz.Twin() {
		zz.Assert(false, "twin")
	}
	zz.Reach("end")
}

// ZZ_C19_CLI_native replays a model of cmd/task's ZZ_C19_CLI against the built binary.
func ZZ_C19_CLI_native() {
	npost := 1 + zz.Choose("npost", 2)
	var post []string
	for k := 0; k < npost; k++ {
		post = append(post, zz.Str(fmt.Sprintf("post%d", k), 4, ""))
	}
	assign := zz.Bool("assignment")
	val := ""
	if assign {
		val = zz.Str("value", 3, "")
	}
	bin, err := zzBuildCLI()
	if err != nil {
		fmt.Println("ZZ-NOTE build failed:", err)
		return
	}
	defer os.RemoveAll(filepath.Dir(bin))
	wd, _ := os.MkdirTemp("", "zzwd")
	defer os.RemoveAll(wd)
	// a sentinel argument after the quoted value makes an empty or split value visible
	second := "printf '<>'"
	if assign {
		second = "printf '<%s>' {{.NAME | q}} Z\n      - printf '(%s)' {{q .NAME}} {{shellQuote .NAME}} Z >&2"
	}
	os.WriteFile(filepath.Join(wd, "Taskfile.yml"), []byte("version: '3'\nsilent: true\ntasks:\n  show:\n    cmds:\n      - defer: printf '{%s}' {{.CLI_ARGS}}\n      - printf '[%s]' {{.CLI_ARGS}}\n      - "+second+"\n"), 0o644)
	argv := []string{"show"}
	if assign {
		argv = append(argv, "NAME="+val)
	}
	argv = append(argv, "--")
	argv = append(argv, post...)
	cmd := exec.Command(bin, argv...)
	cmd.Dir = wd
	var stdout, stderr strings.Builder
	cmd.Stdout = &stdout
	cmd.Stderr = &stderr
	runErr := cmd.Run()
	want := ""
	for _, a := range post {
		want += "[" + a + "]"
	}
	fmt.Printf("ZZ-NOTE argv=%q out=%q stderr=%q err=%v\n", argv, stdout.String(), stderr.String(), runErr)
	got := stdout.String()
	templated := strings.Contains(val, "{{")
	zz.Assert((runErr == nil || templated) && strings.HasPrefix(got, want), "forwarded-arguments-reach-the-command-uninterpreted")
	wantDeferred := ""
	for _, a := range post {
		wantDeferred += "{" + a + "}"
	}
	zz.Assert(templated || strings.HasSuffix(got, wantDeferred), "forwarded-arguments-reach-a-deferred-command-uninterpreted")
	got = strings.TrimSuffix(got, wantDeferred)
	if assign {
		zz.Assert(templated || (runErr == nil && strings.HasSuffix(got, "]<"+val+"><Z>")), "assignment-value-reaches-the-command-split-at-first-equals")
		zz.Assert(templated || (runErr == nil && stderr.String() == "("+val+")("+val+")(Z)"), "shellQuote-and-q-pass-the-value-as-one-quoted-word")
	}
}

// ZZ_CLI_ExitStatus_native replays a model of cmd/task's ZZ_CLI_ExitStatus against the
// built binary: the same scenario as a Taskfile on disk, the exit status of the process.
func ZZ_CLI_ExitStatus_native() {
	kind := zz.Choose("kind", 8)
	exitCode := zz.Bool("exit_code_flag")
	where, status, ignoreCmd, ignoreTask, viaDep := 0, uint8(0), false, false, false
	if kind == 0 {
		where = zz.Choose("failing_command_in", 4)
		status = zz.Uint8("status")
		zz.Assume(status != 0)
		ignoreCmd = zz.Bool("ignore_error_on_command")
		ignoreTask = zz.Bool("ignore_error_on_task")
	} else if kind != 1 && kind != 2 && kind != 7 {
		viaDep = zz.Bool("guarded_task_is_a_dependency")
	}
	want := map[int]int{1: 200, 2: 202, 7: 203, 3: 206, 4: 207, 6: 205, 5: 1}[kind]
	if kind == 0 {
		want = 201
		if exitCode {
			want = int(status)
		}
		if ignoreCmd || ignoreTask {
			want = 0
		}
	}
	failCmd := fmt.Sprintf("      - cmd: exit %d\n        ignore_error: %v\n", status, ignoreCmd)
	okCmd := func(id string) string { return "      - echo RAN:" + id + "\n" }
	ign := fmt.Sprintf("    ignore_error: %v\n", ignoreTask)
	y := "version: '3'\nsilent: true\n"
	show := "  show:\n"
	guard := ""
	name := "show"
	extra := ""
	switch kind {
	case 0:
		switch where {
		case 0:
			show += ign + "    cmds:\n" + failCmd + okCmd("b")
		case 1:
			show += ign + "    cmds:\n" + okCmd("a") + failCmd
		case 2:
			show += "    deps: [dep]\n    cmds:\n" + okCmd("a") + okCmd("b")
			extra = "  dep:\n" + ign + "    cmds:\n" + failCmd
		case 3:
			show += "    cmds:\n" + okCmd("a") + "      - task: sub\n" + okCmd("b")
			extra = "  sub:\n" + ign + "    cmds:\n" + failCmd
		}
	case 1:
		name = "shwo"
	case 2:
		guard = "    internal: true\n"
	case 7:
		name = "s"
		guard = "    aliases: [s]\n"
		extra = "  other:\n    aliases: [s]\n    cmds:\n" + okCmd("o")
	case 3:
		guard = "    requires:\n      vars: [NEEDED]\n"
	case 4:
		guard = "    requires:\n      vars:\n        - name: MODE\n          enum: [dev, prod]\n"
		y += "vars:\n  MODE: test\n"
	case 5:
		guard = "    preconditions:\n      - sh: exit 1\n        msg: no\n"
	case 6:
		guard = "    prompt: sure?\n"
	}
	if kind != 0 {
		if viaDep {
			show += "    deps: [guarded]\n    cmds:\n" + okCmd("a") + okCmd("b")
			extra += "  guarded:\n" + guard + "    cmds:\n" + okCmd("g")
		} else {
			show += guard + "    cmds:\n" + okCmd("a") + okCmd("b")
		}
	}
	y += "tasks:\n" + show + extra
	bin, err := zzBuildCLI()
	if err != nil {
		fmt.Println("ZZ-NOTE build failed:", err)
		return
	}
	defer os.RemoveAll(filepath.Dir(bin))
	wd, _ := os.MkdirTemp("", "zzwd")
	defer os.RemoveAll(wd)
	os.WriteFile(filepath.Join(wd, "Taskfile.yml"), []byte(y), 0o644)
	argv := []string{}
	if exitCode {
		argv = append(argv, "--exit-code")
	}
	argv = append(argv, name)
	cmd := exec.Command(bin, argv...)
	cmd.Dir = wd
	cmd.Stdin = strings.NewReader("")
	out, runErr := cmd.CombinedOutput()
	code := 0
	if ee, ok := runErr.(*exec.ExitError); ok {
		code = ee.ExitCode()
	} else if runErr != nil {
		code = -1
	}
	kinds := []string{"failing-command", "unknown-task", "internal-task", "missing-required-var", "enum-mismatch", "failing-precondition", "prompt-without-terminal", "ambiguous-alias"}
	fmt.Printf("ZZ-NOTE argv=%q exit=%d want=%d out=%q\n", argv, code, want, out)
	zz.Assert(code == want, "exit-status/"+kinds[kind])
	if kind != 0 {
		zz.Assert(!strings.Contains(string(out), "RAN:"), "no-command-runs/"+kinds[kind])
	}
}

// ZZ_C12_QueryFlags_native replays a model of cmd/task's ZZ_C12_QueryFlagsMeanDry against the
// built binary: a fingerprinted task run once; a source edited; the query; then the project
// tree must be unchanged, and a following run must still see the edit.
// ZZ_C05_StateDir_native: the same question asked of the built binary: run from the root,
// then from the chosen directory below it with nothing changed: the commands do not run
// again, and the state sits where TASK_TEMP_DIR and the Taskfile's directory say.
func ZZ_C05_StateDir_native() {
	inv := []string{"", "", "sub", "sub/deeper"}[zz.Choose("invocation_dir", 4)]
	tdKind := zz.Choose("TASK_TEMP_DIR", 3)
	bin, err := zzBuildCLI()
	if err != nil {
		fmt.Println("ZZ-NOTE build failed:", err)
		return
	}
	defer os.RemoveAll(filepath.Dir(bin))
	wd, _ := os.MkdirTemp("", "zzwd")
	wd, _ = filepath.EvalSymlinks(wd)
	defer os.RemoveAll(wd)
	abs, _ := os.MkdirTemp("", "zzabs")
	defer os.RemoveAll(abs)
	td := []string{"", "tmp", abs}[tdKind]
	want := []string{filepath.Join(wd, ".task"), filepath.Join(wd, "tmp"), filepath.Join(abs, filepath.Base(wd))}[tdKind]
	os.MkdirAll(filepath.Join(wd, "sub", "deeper"), 0o755)
	os.WriteFile(filepath.Join(wd, "Taskfile.yml"), []byte("version: '3'\nsilent: true\ntasks:\n  show:\n    sources: ['*.src']\n    cmds:\n      - echo RAN >> trace.log\n"), 0o644)
	os.WriteFile(filepath.Join(wd, "a.src"), []byte("v0"), 0o644)
	run := func(dir string) {
		c := exec.Command(bin, "show")
		c.Dir = filepath.Join(wd, dir)
		c.Env = append(os.Environ(), "TASK_TEMP_DIR="+td)
		out, err := c.CombinedOutput()
		fmt.Printf("ZZ-NOTE in %q -> %q %v\n", dir, out, err)
	}
	run("")
	run(inv)
	b, _ := os.ReadFile(filepath.Join(wd, "trace.log"))
	_, serr := os.Stat(filepath.Join(want, "checksum", "show"))
	fmt.Printf("ZZ-NOTE trace %q state at %s: %v\n", b, want, serr)
	zz.Assert(strings.Count(string(b), "RAN") == 1 && serr == nil, "fingerprint-state-lives-with-the-taskfile")
}

func ZZ_C12_QueryFlags_native() {
	dry, status := zz.Bool("flag_dry"), zz.Bool("flag_status")
	force, summary := zz.Bool("flag_force"), zz.Bool("flag_summary")
	bin, err := zzBuildCLI()
	if err != nil {
		fmt.Println("ZZ-NOTE build failed:", err)
		return
	}
	defer os.RemoveAll(filepath.Dir(bin))
	wd, _ := os.MkdirTemp("", "zzwd")
	defer os.RemoveAll(wd)
	os.WriteFile(filepath.Join(wd, "Taskfile.yml"), []byte("version: '3'\nsilent: true\ntasks:\n  show:\n    sources: ['*.src']\n    cmds:\n      - echo RAN >> trace.log\n"), 0o644)
	os.WriteFile(filepath.Join(wd, "a.src"), []byte("v0"), 0o644)
	run := func(args ...string) {
		c := exec.Command(bin, args...)
		c.Dir = wd
		out, err := c.CombinedOutput()
		fmt.Printf("ZZ-NOTE %q -> %q %v\n", args, out, err)
	}
	snapshot := func() string {
		s := ""
		filepath.Walk(wd, func(p string, info os.FileInfo, err error) error {
			if err == nil && !info.IsDir() {
				b, _ := os.ReadFile(p)
				s += fmt.Sprintf("%s %q %d\n", p, b, info.ModTime().UnixNano())
			}
			return nil
		})
		return s
	}
	run("show")
	os.WriteFile(filepath.Join(wd, "a.src"), []byte("v1"), 0o644)
	before := snapshot()
	var q []string
	for name, on := range map[string]bool{"--dry": dry, "--status": status, "--force": force, "--summary": summary} {
		if on {
			q = append(q, name)
		}
	}
	run(append(q, "show")...)
	if dry || status {
		zz.Assert(snapshot() == before, "dry-and-status-put-the-executor-in-dry-mode")
		b, _ := os.ReadFile(filepath.Join(wd, "trace.log"))
		zz.Assert(strings.Count(string(b), "RAN") == 1, "query-runs-no-command")
	}
}
