package task

import (
	"os"
	"time"
	"runtime"
	"bufio"
	"context"
	"fmt"
	"io"
	"strings"
	"sync"

	"mvdan.cc/sh/v3/interp"

	"github.com/go-task/task/v3/errors"
	"github.com/go-task/task/v3/internal/execext"
	"github.com/go-task/task/v3/internal/output"
	zz "github.com/go-task/task/v3/internal/zzsym"
	"github.com/go-task/task/v3/taskfile/ast"
)

// ---- helpers over traces -------------------------------------------------------------------

// zzSpan returns the first and last trace position of the events of one execution
// of task name (its deps, commands, nested calls and deferred commands). ok is false
// when an expected event is missing.
func zzSpan(g *zzGraph, tr []zz.Event, name string, depth int) (first, last int, ok bool) {
	first, last, ok = len(tr), -1, true
	t := g.task(name)
	if t == nil || depth > 6 {
		return first, last, false
	}
	upd := func(f, l int) {
		if f < first {
			first = f
		}
		if l > last {
			last = l
		}
	}
	for _, d := range t.Deps {
		f, l, o := zzSpan(g, tr, d, depth+1)
		if !o {
			ok = false
			continue
		}
		upd(f, l)
	}
	for k, c := range t.Cmds {
		if c.Call != "" {
			f, l, o := zzSpan(g, tr, c.Call, depth+1)
			if !o {
				ok = false
				continue
			}
			upd(f, l)
			continue
		}
		id := zzProbeID(name, k)
		s, f := zzIndex(tr, "S", id, 0), zzIndex(tr, "F", id, 0)
		if s < 0 || f < 0 {
			ok = false
			continue
		}
		upd(s, f)
	}
	return first, last, ok
}

// zzCmdSpan is the span of command k of task name.
func zzCmdSpan(g *zzGraph, tr []zz.Event, name string, k int) (int, int, bool) {
	c := g.task(name).Cmds[k]
	if c.Call != "" {
		return zzSpan(g, tr, c.Call, 0)
	}
	id := zzProbeID(name, k)
	s, f := zzIndex(tr, "S", id, 0), zzIndex(tr, "F", id, 0)
	return s, f, s >= 0 && f >= 0
}

// ---- C02: commands run one at a time, in order; task calls are synchronous -----------------

// zzCheckSeq: in one successful execution of task name, the deps finish before the
// first command, each command (a nested call with everything it triggers) finishes
// before the next starts, deferred commands run after the last regular command in
// reverse order.
func zzCheckSeq(g *zzGraph, tr []zz.Event, name string) {
	t := g.task(name)
	prevEnd := -1
	for _, d := range t.Deps {
		_, l, ok := zzSpan(g, tr, d, 0)
		zz.Assert(ok, "all-work-done/dep-of-"+name)
		if ok && l > prevEnd {
			prevEnd = l
		}
	}
	var deferred []int
	for k, c := range t.Cmds {
		if c.Defer {
			deferred = append(deferred, k)
			continue
		}
		f, l, ok := zzCmdSpan(g, tr, name, k)
		zz.Assert(ok, "all-work-done/cmd-of-"+name)
		if !ok {
			return
		}
		zz.Assert(f > prevEnd, fmt.Sprintf("commands-in-order-one-at-a-time/%s.%d", name, k))
		prevEnd = l
	}
	for j := len(deferred) - 1; j >= 0; j-- {
		f, l, ok := zzCmdSpan(g, tr, name, deferred[j])
		zz.Assert(ok, "all-work-done/deferred-of-"+name)
		if !ok {
			return
		}
		zz.Assert(f > prevEnd, fmt.Sprintf("deferred-after-commands-in-reverse-order/%s.%d", name, deferred[j]))
		prevEnd = l
	}
	for _, c := range t.Cmds {
		if c.Call != "" && zzCount(tr, "S", zzFirstProbe(g, c.Call)) == 1 {
			zzCheckSeq(g, tr, c.Call)
		}
	}
}

func zzFirstProbe(g *zzGraph, name string) string {
	t := g.task(name)
	for k, c := range t.Cmds {
		if c.Call == "" {
			return zzProbeID(name, k)
		}
	}
	return name + ".none"
}

// zzCheckCallReturns: when the command after a task-call entry starts, nothing of
// the callee's single execution (commands, deferred commands) is still to come.
func zzCheckCallReturns(g *zzGraph, tr []zz.Event) {
	for _, p := range g.Tasks {
		for k, c := range p.Cmds {
			if c.Call == "" || k+1 >= len(p.Cmds) || p.Cmds[k+1].Call != "" || p.Cmds[k+1].Defer {
				continue
			}
			next := zzIndex(tr, "S", zzProbeID(p.Name, k+1), 0)
			if next < 0 || zzCount(tr, "S", zzProbeID(p.Name, k+1)) != 1 {
				continue
			}
			callee := g.task(c.Call)
			for j, cc := range callee.Cmds {
				if cc.Call != "" {
					continue
				}
				id := zzProbeID(callee.Name, j)
				if zzCount(tr, "S", id) > 1 {
					continue
				}
				for pos, ev := range tr {
					if ev.ID == id && pos > next {
						zz.Assert(false, "task-call-returns-only-after-the-callee-finished/"+p.Name+"->"+callee.Name)
					}
				}
			}
		}
	}
}

// ZZ_C02_SharedCall: a call of a shared (run: once) task whose real execution runs
// on behalf of another task - and gets cancelled there by a failing sibling - still
// returns only after that execution and its deferred commands finished.
func ZZ_C02_SharedCall() {
	probe := zzCmd{}
	g := &zzGraph{Tasks: []zzTask{
		{Name: "P", Deps: []string{"S", "F"}},
		{Name: "C", Cmds: []zzCmd{{Call: "S"}, probe}},
		{Name: "F", Cmds: []zzCmd{probe}},
		{Name: "S", Run: "once", Cmds: []zzCmd{{Defer: true}, probe}},
	}}
	mayFail := map[string]bool{"F.0": true}
	tf := g.build(func(id string) bool { return mayFail[id] })
	tr, _ := zzExec(g, tf, zzRunOpts{Parallel: true}, "P", "C")
	zzCheckCallReturns(g, tr)
	if zz.Twin() {
		zz.Assert(false, "twin")
	}
	zz.Reach("end")
}

func ZZ_C02_Order() {
	probe := zzCmd{}
	g := &zzGraph{Tasks: []zzTask{
		{Name: "R", Deps: []string{"B", "X"}},
		{Name: "B", Cmds: []zzCmd{probe, {Call: "C"}, probe}},
		{Name: "C", Deps: []string{"D"}, Cmds: []zzCmd{{Defer: true}, probe, {Defer: true}, probe}},
		{Name: "D", Cmds: []zzCmd{probe}},
		{Name: "X", Cmds: []zzCmd{probe}},
	}}
	tf := g.build(func(string) bool { return false })
	tr, err := zzExec(g, tf, zzRunOpts{Concurrency: zz.Choose("concurrency", zz.Param("maxconc", 0)+1)}, "R")
	zz.Assert(err == nil, "run-succeeds-when-nothing-fails")
	zzCheckSeq(g, tr, "B")
	zzCheckCallReturns(g, tr)
	if zz.Twin() {
		zz.Assert(false, "twin")
	}
	zz.Reach("end")
}

// ZZ_C02_Compile: for-loops expand in list order / matrix row-major order with the
// per-entry attributes kept, and the variables of a call are what the callee sees.
func ZZ_C02_Compile() {
	x0, x1, x2 := zz.Str("item0", 2, "ab"), zz.Str("item1", 2, "ab"), zz.Str("item2", 2, "ab")
	o0, o1 := zz.Str("os0", 1, "ab"), zz.Str("os1", 1, "ab")
	a0, a1 := zz.Str("arch0", 1, "ab"), zz.Str("arch1", 1, "ab")
	v := zz.Str("callvar", 2, "ab")
	ign := zz.Bool("ignore_error")
	sil := zz.Bool("silent")
	// each row is a literal list or a ref to a variable holding the list
	osRow, archRow := &ast.MatrixRow{Value: []any{o0, o1}}, &ast.MatrixRow{Value: []any{a0, a1}}
	osIsRef, archIsRef := zz.Bool("matrix_row_OS_is_a_ref"), zz.Bool("matrix_row_ARCH_is_a_ref")
	if osIsRef {
		osRow = &ast.MatrixRow{Ref: ".OSLIST"}
	}
	if archIsRef {
		archRow = &ast.MatrixRow{Ref: ".ARCHLIST"}
	}
	matrix := ast.NewMatrix(
		&ast.MatrixElement{Key: "OS", Value: osRow},
		&ast.MatrixElement{Key: "ARCH", Value: archRow},
	)
	callVars := ast.NewVars()
	callVars.Set("V", ast.Var{Value: v})
	loopVars := ast.NewVars()
	loopVars.Set("V", ast.Var{Value: "{{.ITEM}}"})
	loopVars.Set("R", ast.Var{Ref: ".ITEM"})
	dynText := "echo {{.ITEM}}" // a dynamic variable of the call whose command names the item
	loopVars.Set("D", ast.Var{Sh: &dynText})
	t := &ast.Task{Task: "t", Location: &ast.Location{Taskfile: "/d/f.yml"}, Vars: ast.NewVars(), Env: ast.NewVars(),
		Cmds: []*ast.Cmd{
			{Cmd: "first"},
			{Cmd: "item {{.ITEM}}", For: &ast.For{List: []any{x0, x1, x2}}, IgnoreError: ign, Silent: sil},
			{Task: "callee", Vars: callVars},
			{Cmd: "m {{.ITEM.OS}} {{.ITEM.ARCH}}", For: &ast.For{Matrix: matrix}},
			{Cmd: "last {{.ITEM}}"}, // the iterator of the loops before it is gone again
			// a call per loop item: the item reaches the callee as text and as a ref
			{Task: "callee", Vars: loopVars, For: &ast.For{List: []any{x0, x1}}},
			// an iterator named like a variable of the task hides it inside the loop only
			{Cmd: "n {{.NAME}}", For: &ast.For{List: []any{x0, x1}, As: "NAME"}},
			{Cmd: "own {{.NAME}}"},
		},
		Deps: []*ast.Dep{{Task: "d-{{.ITEM}}", For: &ast.For{List: []any{x0, x1}}}},
	}
	callee := &ast.Task{Task: "callee", Location: &ast.Location{Taskfile: "/d/f.yml"}, Vars: ast.NewVars(), Env: ast.NewVars(),
		Cmds: []*ast.Cmd{{Cmd: "got {{.V}}"}}}
	if zz.Bool("callee_comes_from_an_included_file_that_defines_V") {
		// the variables of the call win over the included Taskfile's own default
		callee.IncludedTaskfileVars = ast.NewVars()
		callee.IncludedTaskfileVars.Set("V", ast.Var{Value: "file-default"})
		callee.IncludeVars = ast.NewVars()
	}
	tf := &ast.Taskfile{Vars: ast.NewVars(), Env: ast.NewVars(), Tasks: ast.NewTasks(), Run: "always", Method: "checksum"}
	tf.Vars.Set("OSLIST", ast.Var{Value: []any{o0, o1}})
	tf.Vars.Set("ARCHLIST", ast.Var{Value: []any{a0, a1}})
	t.Vars.Set("NAME", ast.Var{Value: "outer"})
	tf.Tasks.Set("t", t)
	tf.Tasks.Set("callee", callee)
	zzRun = zzEchoShell
	zzEnviron = []string{"HOME=/h"}
	e := &Executor{Taskfile: tf, Stdout: io.Discard, Stderr: io.Discard}
	e.Logger = zzQuietLogger()
	e.Compiler = &Compiler{Dir: "", TaskfileEnv: tf.Env, TaskfileVars: tf.Vars, Logger: e.Logger}
	ct, err := e.CompiledTask(&Call{Task: "t"})
	zz.Assert(err == nil && ct != nil, "compiles")
	if err != nil || ct == nil {
		return
	}
	want := []string{"first", "item " + x0, "item " + x1, "item " + x2, "", "m " + o0 + " " + a0, "m " + o0 + " " + a1, "m " + o1 + " " + a0, "m " + o1 + " " + a1, "last ", "", "", "n " + x0, "n " + x1, "own outer"}
	zz.Assert(len(ct.Cmds) == len(want), "for-expansion/number-of-commands")
	if len(ct.Cmds) == len(want) {
		for k := range want {
			zz.Assert(ct.Cmds[k].Cmd == want[k], fmt.Sprintf("for-expansion/order-and-items-%d", k))
		}
		for k := 1; k <= 3; k++ {
			zz.Assert(ct.Cmds[k].IgnoreError == ign && ct.Cmds[k].Silent == sil, "for-expansion/attributes-kept")
		}
		zz.Assert(ct.Cmds[4].Task == "callee", "call-entry-kept-in-place")
		cv, ok := ct.Cmds[4].Vars.Get("V")
		cvs, _ := cv.Value.(string)
		zz.Assert(ok && cvs == v, "call-vars/passed")
		sub, err := e.CompiledTask(&Call{Task: ct.Cmds[4].Task, Vars: ct.Cmds[4].Vars, Indirect: true})
		zz.Assert(err == nil && sub != nil && len(sub.Cmds) == 1 && sub.Cmds[0].Cmd == "got "+v, "call-vars/seen-by-callee")
	}
	if len(ct.Cmds) == len(want) {
		for k, item := range []string{x0, x1} {
			c := ct.Cmds[10+k]
			zz.Assert(c.Task == "callee", "for-expansion/call-per-item")
			tv, _ := c.Vars.Get("V")
			tvs, _ := tv.Value.(string)
			rv, _ := c.Vars.Get("R")
			rvs, _ := rv.Value.(string)
			zz.Assert(tvs == item, "call-vars/loop-item-passed-as-text")
			zz.Assert(rvs == item, "call-vars/loop-item-passed-as-ref")
			dv, _ := c.Vars.Get("D")
			zz.Assert(dv.Sh != nil && *dv.Sh == "echo "+item, "call-vars/loop-item-in-the-command-of-a-dynamic-variable")
		}
	}
	zz.Assert(len(ct.Deps) == 2 && ct.Deps[0].Task == "d-"+x0 && ct.Deps[1].Task == "d-"+x1, "for-expansion/deps")
	if zz.Twin() {
		zz.Assert(false, "twin")
	}
	zz.Reach("end")
}

// ---- C03: fail-stop and error class ---------------------------------------------------------

// zzCheckFailStop: after a non-ignored failing command of a task executed once, no
// later command of that task starts; Run fails.
func zzCheckFailStop(g *zzGraph, tr []zz.Event, err error) {
	anyEffectiveFailure := false
	for pos, ev := range tr {
		if ev.Kind != "F" || ev.Val == 0 {
			continue
		}
		name := zzTaskOf(ev.ID)
		t := g.task(name)
		k := zzCmdIndex(ev.ID)
		if t.Cmds[k].IgnoreError || t.Cmds[k].Defer {
			continue
		}
		if t.IgnoreError {
			continue
		}
		anyEffectiveFailure = true
		if zzCount(tr, "S", ev.ID) != 1 {
			continue
		}
		for j := k + 1; j < len(t.Cmds); j++ {
			if t.Cmds[j].Call != "" || t.Cmds[j].Defer {
				continue
			}
			s := zzIndex(tr, "S", zzProbeID(name, j), 0)
			zz.Assert(s < 0 || s < pos, "no-later-command-after-failure/"+name)
		}
	}
	if anyEffectiveFailure && !zzFailureIsIgnoredUpstream(g, tr) {
		zz.Assert(err != nil, "run-fails-when-a-command-fails")
	}
}

// zzCheckCallers: a task-call entry whose callee failed (and whose failure is not
// ignored) stops its caller: no later command of the caller starts after the failure.
// A shared run-once callee failing once fails every reference to it.
func zzCheckCallers(g *zzGraph, tr []zz.Event) {
	for _, p := range g.Tasks {
		if p.IgnoreError {
			continue
		}
		for k, c := range p.Cmds {
			if c.Call == "" || c.IgnoreError || c.Defer {
				continue
			}
			callee := g.task(c.Call)
			if callee == nil || callee.IgnoreError {
				continue
			}
			failedAt := -1
			for j, cc := range callee.Cmds {
				if cc.Call != "" || cc.IgnoreError || cc.Defer {
					continue
				}
				if f := zzIndex(tr, "F", zzProbeID(callee.Name, j), 0); f >= 0 && tr[f].Val != 0 {
					failedAt = f
				}
			}
			if failedAt < 0 {
				continue
			}
			// the call entry k must have been reached (an earlier entry ran or it is the first)
			for j := k + 1; j < len(p.Cmds); j++ {
				if p.Cmds[j].Call != "" || p.Cmds[j].Defer {
					continue
				}
				id := zzProbeID(p.Name, j)
				for pos, ev := range tr {
					if ev.Kind == "S" && ev.ID == id && pos > failedAt {
						zz.Assert(false, "caller-of-a-failed-task-stops/"+p.Name+"->"+callee.Name)
					}
				}
			}
		}
	}
}

func zzCmdIndex(id string) int {
	n := 0
	for _, c := range id[strings.LastIndex(id, ".")+1:] {
		n = n*10 + int(c-'0')
	}
	return n
}

// zzFailureIsIgnoredUpstream: some task with ignore_error calls (directly) a task whose
// command failed, or the call entry itself is marked ignore_error; then the failure may
// legitimately not reach Run's result.
func zzFailureIsIgnoredUpstream(g *zzGraph, tr []zz.Event) bool {
	for _, t := range g.Tasks {
		for _, c := range t.Cmds {
			if c.Call != "" && (c.IgnoreError || t.IgnoreError) {
				return true
			}
		}
	}
	return false
}

// zzCheckErrorClass: when the only failure is a non-ignored command failure, Run's
// error is the task-run error class (201) carrying the command's status.
func zzCheckErrorClass(g *zzGraph, tr []zz.Event, err error) {
	var status int
	nfail := 0
	for _, ev := range tr {
		if ev.Kind == "F" && ev.Val != 0 {
			t := g.task(zzTaskOf(ev.ID))
			c := t.Cmds[zzCmdIndex(ev.ID)]
			if !c.IgnoreError && !t.IgnoreError && !c.Defer {
				nfail++
				status = ev.Val
			}
		}
	}
	if nfail != 1 || err == nil || zzFailureIsIgnoredUpstream(g, tr) {
		return
	}
	tre, ok := err.(*errors.TaskRunError)
	zz.Assert(ok, "failing-command-gives-task-run-error-201")
	if ok {
		zz.Assert(tre.Code() == errors.CodeTaskRunError, "failing-command-gives-task-run-error-201")
		zz.Assert(tre.TaskExitCode() == status, "exit-code-is-the-failing-commands-status")
	}
}

// zzCheckIgnoredSuppressed: when every failing command is covered by ignore_error on the
// command or on its own task, the failures are suppressed: the task goes on with its next
// command and the invocation succeeds.
func zzCheckIgnoredSuppressed(g *zzGraph, tr []zz.Event, err error) {
	n := 0
	for _, ev := range tr {
		if ev.Kind != "F" || ev.Val == 0 {
			continue
		}
		t := g.task(zzTaskOf(ev.ID))
		c := t.Cmds[zzCmdIndex(ev.ID)]
		if c.Defer {
			continue
		}
		if !c.IgnoreError && !t.IgnoreError {
			return // an effective failure: the other monitors apply
		}
		n++
	}
	if n == 0 {
		return
	}
	zz.Assert(err == nil, "ignored-failure-does-not-affect-the-final-status")
	for pos, ev := range tr {
		if ev.Kind != "F" || ev.Val == 0 {
			continue
		}
		name, k := zzTaskOf(ev.ID), zzCmdIndex(ev.ID)
		t := g.task(name)
		if k+1 < len(t.Cmds) && t.Cmds[k+1].Call == "" && !t.Cmds[k+1].Defer && !t.Cmds[k].Defer {
			s := zzIndex(tr, "S", zzProbeID(name, k+1), 0)
			zz.Assert(s > pos, "ignored-failure-continues-with-the-next-command/"+name)
		}
	}
}

// zzCheckIgnoredCall: a task with ignore_error whose nested call fails because of a
// failing command somewhere below it continues with its next command, and the
// invocation succeeds if nothing else fails.
func zzCheckIgnoredCall(g *zzGraph, tr []zz.Event, err error) {
	r := g.task("R")
	if r == nil || !r.IgnoreError || len(r.Cmds) < 2 || r.Cmds[0].Call == "" {
		return
	}
	failures, rootFailed := 0, false
	for _, ev := range tr {
		if ev.Kind == "F" && ev.Val != 0 {
			failures++
			if zzTaskOf(ev.ID) == "R" {
				rootFailed = true
			}
		}
	}
	if failures == 1 && !rootFailed {
		zz.Assert(zzCount(tr, "S", zzProbeID("R", 1)) == 1, "task-ignore_error-covers-a-failing-nested-call")
		zz.Assert(err == nil, "task-ignore_error-covers-a-failing-nested-call/result")
	}
}

func zzShapeC03(n int) (*zzGraph, []string) {
	probe := zzCmd{}
	switch n {
	case 0: // failure in the called task itself / with command-level ignore_error
		return &zzGraph{Tasks: []zzTask{
			{Name: "R", Cmds: []zzCmd{probe, {IgnoreError: zz.Bool("ignore.R.1")}, probe}},
		}}, []string{"R"}
	case 1: // failure in a dependency
		return &zzGraph{Tasks: []zzTask{
			{Name: "R", Deps: []string{"A"}, Cmds: []zzCmd{probe}},
			{Name: "A", IgnoreError: zz.Bool("ignore.A"), Cmds: []zzCmd{probe, probe}},
		}}, []string{"R"}
	case 2: // failure in a nested call
		return &zzGraph{Tasks: []zzTask{
			{Name: "R", Cmds: []zzCmd{probe, {Call: "A"}, probe}},
			{Name: "A", Cmds: []zzCmd{probe, probe}},
		}}, []string{"R"}
	case 4: // a failed run-once task referenced again later, after its first failure was ignored
		return &zzGraph{Tasks: []zzTask{
			{Name: "R", Cmds: []zzCmd{{Call: "P"}, {Call: "S"}, probe}},
			{Name: "P", IgnoreError: true, Cmds: []zzCmd{{Call: "S"}}},
			{Name: "S", Run: "once", Cmds: []zzCmd{probe}},
		}}, []string{"R"}
	case 5: // failure in a dependency of a task reached through a nested call
		return &zzGraph{Tasks: []zzTask{
			{Name: "R", IgnoreError: zz.Bool("ignore.R"), Cmds: []zzCmd{{Call: "P"}, probe}},
			{Name: "P", Deps: []string{"D"}, Cmds: []zzCmd{probe}},
			{Name: "D", Cmds: []zzCmd{probe}},
		}}, []string{"R"}
	case 7: // --parallel: the shared run-once task is itself named next to a task depending on it
		return &zzGraph{Tasks: []zzTask{
			{Name: "A", Deps: []string{"S"}, Cmds: []zzCmd{probe}},
			{Name: "S", Run: "once", Cmds: []zzCmd{probe}},
		}}, []string{"S", "A"}
	case 6: // a shared run-once task whose first caller has a failing sibling, and a second caller in another group
		return &zzGraph{Tasks: []zzTask{
			{Name: "R", Deps: []string{"P", "Q"}},
			{Name: "P", Deps: []string{"S", "F"}},
			{Name: "Q", Deps: []string{"S"}, Cmds: []zzCmd{probe}},
			{Name: "F", Cmds: []zzCmd{probe}},
			{Name: "S", Run: "once", IgnoreError: zz.Bool("ignore.S"), Cmds: []zzCmd{probe}},
		}}, []string{"R"}
	case 3: // failure in a shared run-once task with a concurrent sibling
		return &zzGraph{Tasks: []zzTask{
			{Name: "R", Deps: []string{"A", "B"}, Cmds: []zzCmd{probe}},
			{Name: "A", Deps: []string{"S"}, Cmds: []zzCmd{probe}},
			{Name: "B", Deps: []string{"S"}, Cmds: []zzCmd{probe}},
			{Name: "S", Run: "once", Cmds: []zzCmd{probe}},
		}}, []string{"R"}
	}
	return nil, nil
}

func ZZ_C03_FailStop() {
	// which goroutine registers a shared execution first cannot be steered through the
	// output sink: natively the parallel-roots shape is run a few times on one and on all
	// processors (with one, the goroutine spawned last runs first)
	reps := 1
	if zz.Native() && zz.Param("shape", 0) == 7 {
		reps = 200
		zzSinkStep = 0
		defer runtime.GOMAXPROCS(runtime.GOMAXPROCS(0))
	}
	g, roots := zzShapeC03(zz.Param("shape", 0))
	tf := g.build(zzFailingDefault(g))
	if sh := zz.Param("shape", 0); (sh == 0 || sh == 1) && zz.Bool("tasks_come_from_an_included_file") {
		// included tasks are deep copies made by Tasks.Merge: ignore_error must survive it
		merged := ast.NewTasks()
		if err := merged.Merge(tf.Tasks, &ast.Include{Flatten: true}, nil); err != nil {
			zz.Assert(false, "merge-must-not-fail")
			return
		}
		tf.Tasks = merged
	}
	for r := 0; r < reps; r++ {
		if reps > 1 {
			runtime.GOMAXPROCS(1 + (r%2)*15)
		}
		tr, err := zzExec(g, tf, zzRunOpts{Parallel: len(roots) > 1}, roots...)
		zzCheckIgnoredCall(g, tr, err)
		zzCheckIgnoredSuppressed(g, tr, err)
		zzCheckFailStop(g, tr, err)
		zzCheckCallers(g, tr)
		zzCheckC01(g, tr)
		zzCheckErrorClass(g, tr, err)
		zzCheckAllWorkDone(g, tr, err, roots)
	}
	if zz.Twin() {
		zz.Assert(false, "twin")
	}
	zz.Reach("end")
}

// ---- C06: run modes -------------------------------------------------------------------------

func ZZ_C06_RunModes() {
	probe := zzCmd{}
	mode := zzRunModes[1+zz.Choose("run.S", 3)]
	v1 := zz.Str("v1", 1, "ab")
	v2 := zz.Str("v2", 1, "ab")
	reach := zz.Choose("binding_reaches", 4) // 0: label (hashed text), 1: only env, 2: only vars, 3: nothing but the call variable itself (a global env entry has the same name)
	s := zzTask{Name: "S", Run: mode, Cmds: []zzCmd{probe}}
	g := &zzGraph{Tasks: []zzTask{
		{Name: "R", Deps: []string{"A", "B"}},
		{Name: "A", Deps: []string{"S"}, DepVars: []string{v1}, Cmds: []zzCmd{probe}},
		{Name: "B", Cmds: []zzCmd{{Call: "S", Var: v2}, probe}},
		s,
	}}
	tf := g.build(zzFailingDefault(g))
	st, _ := tf.Tasks.Get("S")
	switch reach {
	case 0:
		st.Label = "S-{{.V}}"
	case 1:
		st.Env.Set("E", ast.Var{Value: "{{.V}}"})
	case 2:
		st.Vars.Set("W", ast.Var{Value: "{{.V}}"})
	case 3:
		// ... next to a global env entry of the same name, which must not hide it from the key
		tf.Env.Set("V", ast.Var{Value: "fixed"})
	}
	tr, err := zzExec(g, tf, zzRunOpts{}, "R")
	n := zzCount(tr, "S", "S.0")
	// a failing command elsewhere cancels work that has not started: the exact counts are
	// required only when nothing fails
	nothingFails := true
	for _, c := range g.exit {
		if c != 0 {
			nothingFails = false
		}
	}
	switch mode {
	case "once":
		zz.Assert(n <= 1, "once/at-most-one-execution")
	case "when_changed":
		if v1 == v2 {
			zz.Assert(n <= 1, "when_changed/one-execution-per-distinct-binding")
		} else if nothingFails {
			zz.Assert(n == 2, "when_changed/one-execution-per-distinct-binding")
		}
	case "always":
		if nothingFails {
			zz.Assert(n == 2, "always/one-execution-per-reference")
		}
	}
	zzCheckC01(g, tr)
	// every referencing task waits for the real execution and observes its outcome
	if g.exit["S.0"] != 0 {
		zz.Assert(err != nil, "references-observe-failure")
		for pos, ev := range tr {
			if ev.Kind == "S" && ev.ID == "B.1" {
				f := zzIndex(tr, "F", "S.0", 0)
				zz.Assert(f < 0 || f > pos, "references-observe-failure/B-continues-after-failed-call")
			}
		}
	} else {
		for pos, ev := range tr {
			if ev.Kind == "S" && (ev.ID == "B.1" || ev.ID == "A.0") {
				done := false
				for q := 0; q < pos; q++ {
					if tr[q].Kind == "F" && tr[q].ID == "S.0" {
						done = true
					}
				}
				zz.Assert(done, "references-wait-for-the-real-execution/"+ev.ID)
			}
		}
	}
	if zz.Twin() {
		zz.Assert(false, "twin")
	}
	zz.Reach("end")
}

// ---- C07: bounded concurrency, no deadlock ----------------------------------------------------

func zzMaxRunning(tr []zz.Event) int {
	running, max := 0, 0
	for _, ev := range tr {
		switch ev.Kind {
		case "S":
			running++
			if running > max {
				max = running
			}
		case "F", "K":
			running--
		}
	}
	return max
}

func ZZ_C07_Concurrency() {
	g, roots, par := zzShape(zz.Param("shape", 1))
	var failing func(string) bool = func(string) bool { return false }
	if zz.Param("failing", 0) > 0 {
		failing = zzFailingDefault(g)
	}
	zzProbeSleep = true
	tf := g.build(failing)
	zzProbeSleep = false
	n := zz.Choose("concurrency", zz.Param("maxconc", 2)+1)
	tr, err := zzExec(g, tf, zzRunOpts{Concurrency: n, Parallel: par}, roots...)
	// (a state with unfinished goroutines and nothing enabled is reported by the engine as a deadlock)
	zzCheckAllWorkDone(g, tr, err, roots)
	if n >= 1 {
		zz.Assert(zzMaxRunning(tr) <= n, "at-most-N-tasks-execute-commands")
	}
	if n != 1 && zzMaxRunning(tr) >= 2 {
		zz.Reach("independent-deps-overlap")
	}
	if zz.Native() && n != 1 {
		zz.Assert(zzMaxRunning(tr) >= 2, "must-reach/independent-deps-overlap")
	}
	if zz.Twin() {
		zz.Assert(false, "twin")
	}
	zz.Reach("end")
}

// ZZ_C07_Cycle: a cycle of task references that goes through a deduplicated (run: once /
// when_changed) task. The call counter does not help here: the second reference waits for
// the first execution, which waits for the second reference. The invocation must end with an
// error, not hang (the engine reports a state with unfinished goroutines and nothing enabled
// as a deadlock; natively a watchdog does).
func ZZ_C07_Cycle() {
	probe := zzCmd{}
	mode := []string{"once", "when_changed"}[zz.Choose("run_mode_of_A", 2)]
	var g *zzGraph
	kind := zz.Choose("cycle_through", 3)
	switch kind {
	case 2: // a deferred call of the task itself
		g = &zzGraph{Tasks: []zzTask{
			{Name: "A", Run: mode, Cmds: []zzCmd{{Defer: true, Call: "A"}, probe}},
		}}
	case 0: // dependencies
		g = &zzGraph{Tasks: []zzTask{
			{Name: "A", Run: mode, Deps: []string{"B"}, Cmds: []zzCmd{probe}},
			{Name: "B", Deps: []string{"A"}, Cmds: []zzCmd{probe}},
		}}
	default: // task calls
		g = &zzGraph{Tasks: []zzTask{
			{Name: "A", Run: mode, Cmds: []zzCmd{{Call: "B"}, probe}},
			{Name: "B", Cmds: []zzCmd{{Call: "A"}, probe}},
		}}
	}
	tf := g.build(func(string) bool { return false })
	n := zz.Choose("concurrency", 3)
	tr, err := zzExec(g, tf, zzRunOpts{Concurrency: n}, "A")
	if kind == 2 {
		// the task itself runs; its deferred call of itself is refused (a deferred command's
		// failure does not change the outcome), and the invocation ends
		zz.Assert(err == nil && zzCount(tr, "S", "A.1") == 1, "deferred-self-call-ends")
	} else {
		zz.Assert(err != nil, "cyclic-references-end-with-an-error")
		zz.Assert(zzCount(tr, "S", "A.0")+zzCount(tr, "S", "A.1") == 0, "cyclic-task-runs-no-command")
	}
	if zz.Twin() {
		zz.Assert(false, "twin")
	}
	zz.Reach("end")
}

// ZZ_C07_MutualOnce: two deduplicated tasks that call each other, started side by side as
// dependencies of one task: each first runs a command of its own, then calls the other. The
// references are cyclic, so the invocation has to end with an error, not with each execution
// waiting for the other for good.
func ZZ_C07_MutualOnce() {
	probe := zzCmd{}
	mode := []string{"once", "when_changed"}[zz.Choose("run_mode", 2)]
	g := &zzGraph{Tasks: []zzTask{
		{Name: "P", Deps: []string{"A", "B"}},
		{Name: "A", Run: mode, Cmds: []zzCmd{probe, {Call: "B"}}},
		{Name: "B", Run: mode, Cmds: []zzCmd{probe, {Call: "A"}}},
	}}
	if zz.Bool("cycle_goes_through_a_third_task") {
		// A calls C, C calls B, B calls A: the execution that closes the cycle (B reaching A)
		// has to see that A is blocked through the execution it started inline (C waits for B)
		g = &zzGraph{Tasks: []zzTask{
			{Name: "P", Deps: []string{"A", "B"}},
			{Name: "A", Run: mode, Cmds: []zzCmd{{Call: "C"}}},
			{Name: "C", Run: mode, Cmds: []zzCmd{probe, {Call: "B"}}},
			{Name: "B", Run: mode, Cmds: []zzCmd{probe, {Call: "A"}}},
		}}
	}
	tf := g.build(func(string) bool { return false })
	_, err := zzExec(g, tf, zzRunOpts{}, "P")
	zz.Assert(err != nil, "cyclic-references-end-with-an-error")
	if zz.Twin() {
		zz.Assert(false, "twin")
	}
	zz.Reach("end")
}

// ZZ_C07_FailingDynamicVar: a dynamic (sh:) variable whose command fails makes its task
// fail; whatever evaluates variables afterwards in the same invocation (a deferred command
// of the caller, a sibling) must not block on the compiler's cache lock: the invocation
// terminates (the engine reports a state where nothing is enabled as a deadlock).
func ZZ_C07_FailingDynamicVar() {
	probe := zzCmd{}
	g := &zzGraph{Tasks: []zzTask{
		{Name: "R", Cmds: []zzCmd{{Defer: true}, {Call: "B"}, probe}},
		{Name: "B", Cmds: []zzCmd{probe}},
	}}
	tf := g.build(func(string) bool { return false })
	sh := func(text string) ast.Var { s := text; return ast.Var{Sh: &s} }
	rt, _ := tf.Tasks.Get("R")
	bt, _ := tf.Tasks.Get("B")
	rt.Vars.Set("STAMP", sh("echo stamp"))
	if zz.Bool("variable_of_the_called_task_fails") {
		bt.Vars.Set("REV", sh("exit 3"))
	} else {
		bt.Vars.Set("REV", sh("echo rev"))
	}
	prev := zzProbe
	_ = prev
	tr, err := zzExecWithShell(g, tf, func(ctx context.Context, opts *execext.RunCommandOptions) error {
		if opts.Command == "exit 3" {
			return interp.NewExitStatus(3)
		}
		return zzProbe(ctx, opts)
	}, "R")
	failed := false
	if v, ok := bt.Vars.Get("REV"); ok && v.Sh != nil && *v.Sh == "exit 3" {
		failed = true
	}
	zz.Assert((err != nil) == failed, "a-failing-dynamic-variable-fails-the-invocation")
	zz.Assert(zzCount(tr, "S", "R.0") == 1, "the-callers-deferred-command-still-runs")
	if zz.Twin() {
		zz.Assert(false, "twin")
	}
	zz.Reach("end")
}

// ZZ_C07_CallLimit: the inductive step of termination: from any count c of earlier
// calls one RunTask call raises the count by exactly one and, once the limit is
// reached, fails with the 'called too many times' class (204) without running
// anything.
func ZZ_C07_CallLimit() {
	probe := zzCmd{}
	g := &zzGraph{Tasks: []zzTask{{Name: "A", Cmds: []zzCmd{probe}}}}
	tf := g.build(func(string) bool { return false })
	zzGraphCur = g
	zzRun = zzProbe
	zzEnviron = []string{"HOME=/h"}
	e := &Executor{Taskfile: tf, Stdout: io.Discard, Stderr: io.Discard, Silent: true, Output: output.Interleaved{}}
	if zz.Native() {
		e.Stdout = zzNewSink()
	}
	e.Logger = zzQuietLogger()
	e.Compiler = &Compiler{Dir: "", TaskfileEnv: tf.Env, TaskfileVars: tf.Vars, Logger: e.Logger}
	e.Concurrency = zz.Choose("concurrency", 3)
	e.setupConcurrencyState()
	// attributes of the task and of the call that the limit must not depend on (only the
	// --watch mode of the whole invocation lifts it)
	at, _ := tf.Tasks.Get("A")
	at.Watch = zz.Bool("task_has_watch_true")
	at.Internal = zz.Bool("task_is_internal")
	at.Run = zzRunModes[zz.Choose("run.A", len(zzRunModes))]
	// ... nor on the invocation being a --watch session: there the runs are started again and
	// again, but the calls of one round of runs are bounded like any others
	e.Watch = zz.Bool("invocation_is_a_watch_session")
	c := zz.Int("calls_so_far", 0, 2000)
	*e.taskCallCount["A"] = int32(c)
	err := e.RunTask(context.Background(), &Call{Task: "A", Indirect: zz.Bool("call_is_indirect")})
	tr := zz.Trace()
	zz.Assert(int(*e.taskCallCount["A"]) == c+1, "call-count-increases-by-one")
	// whatever the outcome, the call hands back every concurrency slot it took
	zz.Assert(len(e.concurrencySemaphore) == 0, "concurrency-slots-all-returned")
	if zz.Param("acyclic_reading", 0) == 1 {
		// The other reading of the same step: the counter counts the calls of the task made
		// so far in this invocation, all of them finished (nothing is in progress in this
		// state), as in an acyclic Taskfile that calls the task from a loop: the next call
		// is required work and has to run.
		zz.Assert(err == nil && zzCount(tr, "F", "A.0") == 1, "a-call-of-a-task-that-is-not-in-progress-runs")
		zz.Reach("end")
		return
	}
	if c+1 >= MaximumTaskCall {
		tm, ok := err.(*errors.TaskCalledTooManyTimesError)
		zz.Assert(ok && tm.Code() == errors.CodeTaskCalledTooManyTimes, "limit-reached-gives-204")
		zz.Assert(len(tr) == 0, "limit-reached-runs-nothing")
	} else {
		zz.Assert(err == nil && zzCount(tr, "F", "A.0") == 1, "below-limit-runs-the-task")
	}
	if zz.Twin() {
		zz.Assert(false, "twin")
	}
	zz.Reach("end")
}

// ---- C14: deferred commands -------------------------------------------------------------------

func ZZ_C14_Defer() {
	probe := zzCmd{}
	g := &zzGraph{Tasks: []zzTask{
		{Name: "R", Deps: []string{"T", "X"}, Cmds: []zzCmd{probe}},
		{Name: "T", Cmds: []zzCmd{{Defer: true}, probe, {Defer: true}, probe}},
		{Name: "X", Cmds: []zzCmd{probe}},
	}}
	mayFail := map[string]bool{"T.1": true, "T.3": true, "X.0": true, "T.0": true}
	zzFixedCode = 7
	zzSuffix = map[string]string{}
	tf := g.build(func(id string) bool { return mayFail[id] })
	zzFixedCode = 0
	tt, _ := tf.Tasks.Get("T")
	if !zz.Native() {
		tt.Cmds[0].Cmd += "#code={{.EXIT_CODE}}" // the deferred command sees the failing command's status
	} else {
		tt.Cmds[0].Cmd = "echo S:T.0; echo X:T.0:{{.EXIT_CODE}}; echo F:T.0:0"
	}
	// the task may be reached under another name than its key in the task table
	tt.Aliases = []string{"Talias"}
	if zz.Bool("task_called_by_its_alias") {
		rt, _ := tf.Tasks.Get("R")
		for _, d := range rt.Deps {
			if d.Task == "T" {
				d.Task = "Talias"
			}
		}
	}
	tr, err := zzExec(g, tf, zzRunOpts{}, "R")
	// which defer entries were reached: entry k is reached iff the loop got to index k,
	// i.e. no earlier regular command failed and the task body started at all
	bodyStarted := zzCount(tr, "S", "T.1") > 0 || zzCount(tr, "S", "T.0") > 0
	failedAt := -1
	for _, k := range []int{1, 3} {
		f := zzIndex(tr, "F", zzProbeID("T", k), 0)
		if f >= 0 && tr[f].Val != 0 && failedAt < 0 {
			failedAt = k
		}
		if zzCount(tr, "K", zzProbeID("T", k)) > 0 && failedAt < 0 {
			failedAt = k
		}
	}
	lastCmdEnd := -1
	for _, k := range []int{1, 3} {
		id := zzProbeID("T", k)
		for _, kind := range []string{"F", "K"} {
			if p := zzIndex(tr, kind, id, 0); p > lastCmdEnd {
				lastCmdEnd = p
			}
		}
	}
	if bodyStarted {
		reached := []int{0}
		if failedAt < 0 || failedAt > 2 {
			if zzCount(tr, "S", "T.1") > 0 && (failedAt != 1) {
				reached = append(reached, 2)
			}
		}
		prev := len(tr)
		for _, k := range reached {
			id := zzProbeID("T", k)
			zz.Assert(zzCount(tr, "S", id) == 1, "deferred-runs-exactly-once/"+id)
			s := zzIndex(tr, "S", id, 0)
			if s >= 0 {
				zz.Assert(s > lastCmdEnd, "deferred-runs-after-the-last-command/"+id)
				zz.Assert(s < prev, "deferred-run-in-reverse-order/"+id)
				prev = s
			}
		}
		if len(reached) == 1 {
			zz.Assert(zzCount(tr, "S", "T.2") == 0, "unreached-defer-does-not-run")
		}
	}
	// .EXIT_CODE of the failing command (T runs as a dependency, i.e. indirectly)
	if zzCount(tr, "S", "T.0") == 1 {
		seen := zzSuffix["T.0"]
		if zz.Native() {
			seen = "code="
			for _, ev := range tr {
				if ev.Kind == "X" && ev.ID == "T.0" && ev.Val != 0 {
					seen = fmt.Sprintf("code=%d", ev.Val)
				}
			}
		}
		failedStatus := 0
		for _, k := range []int{1, 3} {
			if f := zzIndex(tr, "F", zzProbeID("T", k), 0); f >= 0 && tr[f].Val != 0 && failedStatus == 0 {
				failedStatus = tr[f].Val
			}
		}
		if failedStatus != 0 {
			zz.Assert(seen == fmt.Sprintf("code=%d", failedStatus), "deferred-sees-EXIT_CODE-of-the-failing-command")
		} else if zzCount(tr, "K", "T.1")+zzCount(tr, "K", "T.3") == 0 {
			zz.Assert(seen == "code=", "deferred-sees-no-EXIT_CODE-when-nothing-failed")
		}
	}
	// before the caller continues
	if p := zzIndex(tr, "S", "R.0", 0); p >= 0 {
		for _, id := range []string{"T.0", "T.2"} {
			if s := zzIndex(tr, "F", id, 0); s >= 0 {
				zz.Assert(s < p, "deferred-before-caller-continues/"+id)
			}
		}
	}
	// a deferred command's own failure never changes the outcome
	if g.exit["T.1"] == 0 && g.exit["T.3"] == 0 && g.exit["X.0"] == 0 {
		zz.Assert(err == nil, "deferred-failure-does-not-change-outcome")
	}
	if zz.Twin() {
		zz.Assert(false, "twin")
	}
	zz.Reach("end")
}

// ---- C13: guards ------------------------------------------------------------------------------

var (
	zzTerminal   bool
	zzPromptLine string
	zzPromptEOF  bool
)

//gosmt:stub github.com/go-task/task/v3/internal/term.IsTerminal
func zzIsTerminal() bool { return zzTerminal }

//gosmt:stub (*bufio.Reader).ReadString
func zzReadString(r *bufio.Reader, delim byte) (string, error) {
	if zzPromptEOF {
		return "", io.EOF
	}
	return zzPromptLine, nil
}

var zzAnswers = []string{"y\n", "yes\n", "n\n", "\n", "Y\n"}

func ZZ_C13_Guards() {
	probe := zzCmd{}
	position := zz.Choose("position", 3) // 0 root call, 1 dependency, 2 nested call
	guard := zz.Choose("guard", 7)       // 0 none 1 platform 2 requires-missing 3 requires-enum 4 precondition 5 prompt 6 internal
	if p := zz.Param("guard", -1); p >= 0 {
		zz.Assume(guard == p)
	}
	var g *zzGraph
	root := "R"
	switch position {
	case 0:
		g = &zzGraph{Tasks: []zzTask{{Name: "G", Cmds: []zzCmd{probe}}}}
		root = "G"
	case 1:
		g = &zzGraph{Tasks: []zzTask{{Name: "R", Deps: []string{"G"}, Cmds: []zzCmd{probe}}, {Name: "G", Cmds: []zzCmd{probe}}}}
	default:
		// ignore_error on the caller covers failing commands, not failing guards
		g = &zzGraph{Tasks: []zzTask{{Name: "R", IgnoreError: zz.Bool("caller_ignore_error"), Cmds: []zzCmd{{Call: "G"}, probe}}, {Name: "G", Cmds: []zzCmd{probe}}}}
	}
	tf := g.build(func(string) bool { return false })
	gt, _ := tf.Tasks.Get("G")
	guardFails := false
	force := zz.Bool("force")
	forceAll := zz.Bool("force_all")
	yes := zz.Bool("yes")
	terminal := zz.Bool("terminal")
	answer := zz.Choose("answer", len(zzAnswers)+1)
	wantCode := 0
	switch guard {
	case 1:
		// every way of not naming the current platform: another OS, another architecture
		// alone, the right OS with another architecture, another OS with the right
		// architecture, and two entries that both miss
		gt.Platforms = [][]*ast.Platform{
			{{OS: "no-such-os"}},
			{{Arch: "no-such-arch"}},
			{{OS: runtime.GOOS, Arch: "no-such-arch"}},
			{{OS: "no-such-os", Arch: runtime.GOARCH}},
			{{OS: "no-such-os"}, {Arch: "no-such-arch"}},
		}[zz.Choose("platforms_entry", 5)]
	case 2:
		gt.Requires = &ast.Requires{Vars: []*ast.VarsWithValidation{{Name: "NEEDED"}}}
		guardFails, wantCode = true, errors.CodeTaskMissingRequiredVars
	case 3:
		gt.Requires = &ast.Requires{Vars: []*ast.VarsWithValidation{{Name: "NEEDED", Enum: []string{"x", "y", "1"}}}}
		// the value outside the enum: a string, or a YAML number (the enum lists text)
		switch zz.Choose("value_outside_the_enum_is", 2) {
		case 0:
			gt.Vars.Set("NEEDED", ast.Var{Value: "z"})
		case 1:
			gt.Vars.Set("NEEDED", ast.Var{Value: 3})
		}
		guardFails, wantCode = true, errors.CodeTaskNotAllowedVars
	case 4:
		gt.Preconditions = []*ast.Precondition{{Sh: zzPreText(), Msg: "no"}}
		guardFails, wantCode = true, -1 // generic failure
		if zz.Bool("guarded_task_has_its_own_dir") {
			gt.Dir = "gdir" // the guard is evaluated where the task's commands would run
			if zz.Native() {
				gt.Preconditions[0].Sh = "test -f marker-that-only-the-root-directory-has"
				os.WriteFile("marker-that-only-the-root-directory-has", nil, 0o644)
				defer os.Remove("marker-that-only-the-root-directory-has")
				defer os.RemoveAll("gdir")
			}
		}
	case 5:
		gt.Prompt = []string{"sure?"}
		approved := yes || (terminal && (answer == 0 || answer == 1 || answer == 4))
		if !approved {
			guardFails = true
			wantCode = errors.CodeTaskCancelled
		}
	case 6:
		gt.Internal = true
		if position == 0 {
			guardFails, wantCode = true, errors.CodeTaskInternal
		}
	}
	included := zz.Bool("tasks_come_from_an_included_file")
	includeInternal := false
	if guard == 6 && included && zz.Bool("internal_is_set_on_the_include_statement") {
		gt.Internal = false
		includeInternal = true
		// every task of the harness comes from that include, the named one too
		guardFails, wantCode = true, errors.CodeTaskInternal
	}
	if included {
		// included tasks are deep copies made by Tasks.Merge: the guards must survive it
		merged := ast.NewTasks()
		if err := merged.Merge(tf.Tasks, &ast.Include{Flatten: true, Internal: includeInternal}, nil); err != nil {
			zz.Assert(false, "merge-must-not-fail")
			return
		}
		tf.Tasks = merged
	}
	zzTerminal = terminal
	zzPromptEOF = answer == len(zzAnswers) // the input ends at the prompt (Ctrl-D, an exhausted pipe): nothing typed is a "no"
	zzPromptLine = ""
	if !zzPromptEOF {
		zzPromptLine = zzAnswers[answer]
	}
	zzPreFail = true
	o := zzRunOpts{Force: force, ForceAll: forceAll, AssumeYes: yes}
	tr, err := zzExecOpts(g, tf, o, terminal, root)
	started := zzCount(tr, "S", "G.0") > 0
	switch {
	case guard == 1:
		zz.Assert(!started, "platform-mismatch-skips-silently")
		zz.Assert(err == nil, "platform-mismatch-skips-silently/success")
	case guardFails:
		if guard == 4 && gt.Dir != "" {
			if zz.Native() {
				// the marker exists in the root directory only: the guard passes iff it was
				// evaluated there
				zz.Assert(!started, "precondition-is-evaluated-in-the-tasks-directory")
			} else {
				zz.Assert(zzPreDir == gt.Dir, "precondition-is-evaluated-in-the-tasks-directory")
			}
		}
		zz.Assert(!started, "failed-guard-runs-no-command-of-the-task")
		zz.Assert(err != nil, "failed-guard-fails-the-invocation")
		if err != nil && position != 2 && wantCode > 0 {
			te, ok := err.(errors.TaskError)
			zz.Assert(ok && te.Code() == wantCode, fmt.Sprintf("failed-guard-gives-its-documented-class/%d", wantCode))
		}
		if position == 2 {
			zz.Assert(zzCount(tr, "S", "R.1") == 0, "failed-guard-in-nested-call-fails-the-caller")
		}
	default:
		zz.Assert(started && err == nil, "passing-guards-let-the-task-run")
	}
	if zz.Twin() {
		zz.Assert(false, "twin")
	}
	zz.Reach("end")
}

// ZZ_C13_SharedGuard: a deduplicated (run: once) task whose guard fails is first reached as
// a dependency next to a sibling that fails while the guard is still being evaluated (the
// first caller's failure is swallowed by ignore_error on the root), and later through the
// dependencies of a second task: the second caller must not start its commands either, and
// the invocation fails, for every interleaving of the sibling's failure with the guard.
func ZZ_C13_SharedGuard() {
	g, roots, par := zzShape(6)
	tf := g.build(func(id string) bool { return id == "F.0" })
	st, _ := tf.Tasks.Get("S")
	switch zz.Choose("guard", 2) {
	case 0:
		st.Preconditions = []*ast.Precondition{{Sh: zzPreText(), Msg: "no"}}
		if zz.Native() { // slow enough for the sibling to fail meanwhile
			st.Preconditions[0].Sh = "sleep 0.4; exit 1"
		}
	case 1:
		st.Requires = &ast.Requires{Vars: []*ast.VarsWithValidation{{Name: "NEEDED"}}}
	}
	zzPreFail = true
	tr, err := zzExec(g, tf, zzRunOpts{Parallel: par}, roots...)
	zz.Assert(zzCount(tr, "S", "S.0") == 0, "failed-guard-runs-no-command-of-the-task")
	zz.Assert(zzCount(tr, "S", "Q.0") == 0, "failed-guard-of-a-shared-task-stops-every-caller")
	zz.Assert(err != nil, "failed-guard-fails-the-invocation")
	if zz.Twin() {
		zz.Assert(false, "twin")
	}
	zz.Reach("end")
}

// ---- C17 through runCommand: the output wrapper is closed with the command's real outcome -----

type zzCollect struct{ writes []string }

func (c *zzCollect) Write(p []byte) (int, error) {
	c.writes = append(c.writes, string(p))
	return len(p), nil
}

// zzOutShell: a command "out <id> <status>" writes one line and exits with status.
func zzOutShell(ctx context.Context, opts *execext.RunCommandOptions) error {
	f := strings.Fields(opts.Command)
	if len(f) != 3 || f[0] != "out" {
		return nil
	}
	if opts.Stdout != nil {
		_, _ = io.WriteString(opts.Stdout, "o:"+f[1]+"\n")
	}
	if f[2] == "9" { // interrupted: not an exit status
		return context.Canceled
	}
	if f[2] != "0" {
		return interp.NewExitStatus(3)
	}
	return nil
}

// ZZ_C17_RunCommand: with output: group the block of a command appears iff it wrote
// something and (not error_only or it failed) - also when the failure is ignored.
func ZZ_C17_RunCommand() {
	errorOnly := zz.Bool("error_only")
	// command b succeeds, exits non-zero, or is interrupted after it wrote its output
	bOutcome := zz.Choose("b_outcome", 3)
	failB := bOutcome != 0
	ignoreB := zz.Bool("b_ignore_error")
	taskIgnore := zz.Bool("task_ignore_error")
	text := func(id string, fail bool) string {
		code := 0
		if fail {
			code = 3
		}
		if zz.Native() {
			return fmt.Sprintf("printf 'o:%s\\n'; exit %d", id, code)
		}
		return fmt.Sprintf("out %s %d", id, code)
	}
	tf := &ast.Taskfile{Vars: ast.NewVars(), Env: ast.NewVars(), Tasks: ast.NewTasks(), Run: "always", Method: "checksum"}
	t := &ast.Task{Task: "t", IgnoreError: taskIgnore, Location: &ast.Location{Taskfile: "/d/f.yml"}, Vars: ast.NewVars(), Env: ast.NewVars(),
		Cmds: []*ast.Cmd{{Cmd: text("a", false)}, {Cmd: text("b", failB), IgnoreError: ignoreB}, {Cmd: text("c", false)}}}
	ctx := context.Background()
	if bOutcome == 2 {
		if zz.Native() {
			t.Cmds[1].Cmd = "printf 'o:b\\n'; sleep 5"
			var cancel context.CancelFunc
			ctx, cancel = context.WithTimeout(ctx, 300*time.Millisecond)
			defer cancel()
		} else {
			t.Cmds[1].Cmd = "out b 9"
		}
	}
	tf.Tasks.Set("t", t)
	zzRun = zzOutShell
	zzEnviron = []string{"HOME=/h"}
	sink := &zzCollect{}
	e := &Executor{Taskfile: tf, Stdout: sink, Stderr: io.Discard, Stdin: strings.NewReader(""), Silent: true,
		Output: output.Group{Begin: "<", End: ">", ErrorOnly: errorOnly}}
	e.Logger = zzQuietLogger()
	e.Compiler = &Compiler{Dir: "", TaskfileEnv: tf.Env, TaskfileVars: tf.Vars, Logger: e.Logger}
	e.setupConcurrencyState()
	err := e.Run(ctx, &Call{Task: "t"})
	all := strings.Join(sink.writes, "")
	block := func(id string) string { return "<\no:" + id + "\n>\n" }
	cRuns := bOutcome == 0 || (bOutcome == 1 && (ignoreB || taskIgnore))
	zz.Assert((err == nil) == cRuns, "run-result")
	for _, c := range []struct {
		id     string
		ran    bool
		failed bool
	}{{"a", true, false}, {"b", true, failB}, {"c", cRuns, false}} {
		want := c.ran && (!errorOnly || c.failed)
		zz.Assert(strings.Contains(all, block(c.id)) == want, "group/block-shown-iff-output-and-(not-error_only-or-failed)/"+c.id)
	}
	if zz.Twin() {
		zz.Assert(false, "twin")
	}
	zz.Reach("end")
}

// ---- fine-grained scheduling on the deduplication core (thorough tier) ----------------------

// ZZ_K_TwoCallers: two callers reach the same run: once task through the real
// startExecution and the real concurrency slots; every synchronisation operation is a
// scheduling point (no coarse scheduling). The shared execution may fail.
func ZZ_K_TwoCallers() {
	e := &Executor{executionHashes: map[string]context.Context{}, Logger: zzQuietLogger(), Taskfile: &ast.Taskfile{Run: "always"}}
	n := zz.Choose("concurrency", 3)
	if n > 0 {
		e.concurrencySemaphore = make(chan struct{}, n)
	}
	t := &ast.Task{Task: "s", Run: "once", Location: &ast.Location{Taskfile: "f"}}
	fail := zz.Bool("shared_fails")
	runs := 0
	finished := false
	var wg sync.WaitGroup
	var errs [2]error
	for k := 0; k < 2; k++ {
		wg.Add(1)
		go func(k int) {
			defer wg.Done()
			release := e.acquireConcurrencyLimit()
			defer release()
			errs[k] = e.startExecution(context.Background(), t, func(ctx context.Context) error {
				runs++
				zz.Yield() // the command takes time
				finished = true
				if fail {
					return fmt.Errorf("boom")
				}
				return nil
			})
			zz.Assert(finished, "caller-proceeds-only-after-the-shared-execution-finished")
			if fail {
				zz.Assert(errs[k] != nil, "caller-observes-the-failure")
			}
		}(k)
	}
	wg.Wait()
	zz.Assert(runs == 1, "once-runs-once")
	zz.Assert(len(e.concurrencySemaphore) == 0, "concurrency-slots-all-returned")
	if zz.Twin() {
		zz.Assert(false, "twin")
	}
	zz.Reach("end")
}


// ZZ_C06_DistinctOnce: two different run: once tasks of one file whose names share
// their last colon-separated segment are two tasks: each executes once and its caller
// observes its own outcome.
func ZZ_C06_DistinctOnce() {
	probe := zzCmd{}
	first, second := "docker:build", "npm:build"
	flattened := zz.Bool("tasks_come_from_a_flattened_include_named_like_a_prefix")
	if flattened {
		// a flattened include called "pre" with the tasks prebuild and build: no prefix is
		// added, and the include's name must not be cut off the task names either
		first, second = "prebuild", "build"
	}
	g := &zzGraph{Tasks: []zzTask{
		{Name: "R", Cmds: []zzCmd{{Call: first}, {Call: second}, probe}},
		{Name: first, Run: "once", Cmds: []zzCmd{probe}},
		{Name: second, Run: "once", Cmds: []zzCmd{probe}},
	}}
	tf := g.build(zzFailingDefault(g))
	if flattened {
		merged := ast.NewTasks()
		if err := merged.Merge(tf.Tasks, &ast.Include{Namespace: "pre", Flatten: true}, nil); err != nil {
			zz.Assert(false, "merge-must-not-fail")
			return
		}
		tf.Tasks = merged
	}
	tr, err := zzExec(g, tf, zzRunOpts{}, "R")
	if g.exit[first+".0"] == 0 {
		zz.Assert(zzCount(tr, "S", second+".0") == 1, "once/distinct-tasks-each-execute")
		if g.exit[second+".0"] != 0 {
			zz.Assert(err != nil && zzCount(tr, "S", "R.2") == 0, "references-observe-failure/own-outcome")
		}
	}
	zzCheckAllWorkDone(g, tr, err, []string{"R"})
	if zz.Twin() {
		zz.Assert(false, "twin")
	}
	zz.Reach("end")
}
