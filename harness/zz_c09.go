package task

import (
	"fmt"
	"os"
	"path/filepath"

	"github.com/Masterminds/semver/v3"
	"github.com/joho/godotenv"

	zz "github.com/go-task/task/v3/internal/zzsym"
	"github.com/go-task/task/v3/taskfile/ast"
)

// the .env file of the harness: one entry refers to another
var zzDotenv = map[string]string{"ZZ_A": "{{.ZZ_B}}-a", "ZZ_B": "hello"}

//gosmt:stub github.com/joho/godotenv.Read
func zzDotenvRead(filenames ...string) (map[string]string, error) {
	out := map[string]string{}
	for k, v := range zzDotenv {
		out[k] = v
	}
	return out, nil
}

// zzLoadDotenv: what Setup does with `dotenv: ['.env']` (readDotEnvFiles), then the value
// and environment a command of a task sees.
func zzLoadDotenv(dir string) string {
	tf := &ast.Taskfile{Version: semver.MustParse("3"), Vars: ast.NewVars(), Env: ast.NewVars(), Tasks: ast.NewTasks(), Dotenv: []string{".env"}}
	tf.Tasks.Set("t", &ast.Task{Task: "t", Location: &ast.Location{Taskfile: filepath.Join(dir, "Taskfile.yml")}, Vars: ast.NewVars(), Env: ast.NewVars(),
		Cmds: []*ast.Cmd{{Cmd: "echo {{.ZZ_A}}"}}})
	e := &Executor{Taskfile: tf, Dir: dir}
	e.Logger = zzQuietLogger()
	e.Compiler = &Compiler{Dir: dir, TaskfileEnv: tf.Env, TaskfileVars: tf.Vars, Logger: e.Logger}
	if err := e.readDotEnvFiles(); err != nil {
		return "error: " + err.Error()
	}
	ct, err := e.CompiledTask(&Call{Task: "t"})
	if err != nil || ct == nil || len(ct.Cmds) != 1 {
		return fmt.Sprint("error: ", err)
	}
	return ct.Cmds[0].Cmd
}

// ZZ_C09_Dotenv (2-safety): two loads of a Taskfile with a dotenv file whose entries refer
// to each other - each load with its own symbolic order of every Go map range - compute the
// same command line.
func ZZ_C09_Dotenv() {
	dir := ""
	if zz.Native() {
		d, _ := os.MkdirTemp("", "zzdotenv")
		defer os.RemoveAll(d)
		dir = d
		text := ""
		for k, v := range zzDotenv {
			text += k + "='" + v + "'\n"
		}
		os.WriteFile(filepath.Join(dir, ".env"), []byte(text), 0o644)
	} else {
		zzFSReset()
		zzPut(".env", "")
		zzEnviron = []string{"HOME=/h"}
	}
	c1 := zzLoadDotenv(dir)
	c2 := zzLoadDotenv(dir)
	zz.Assert(c1 == c2, "same-command-lines-on-every-load")
	if zz.Native() {
		for k := 0; k < 60; k++ {
			zz.Assert(zzLoadDotenv(dir) == c1, "same-command-lines-on-every-load")
		}
	}
	if zz.Twin() {
		zz.Assert(false, "twin")
	}
	zz.Reach("end")
}

var _ = godotenv.Read
