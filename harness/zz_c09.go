package task

import (
	"github.com/go-task/task/v3/internal/output"
	"github.com/go-task/task/v3/internal/execext"
	"strings"
	"context"
	"io"
	"fmt"
	"os"
	"path/filepath"

	"github.com/Masterminds/semver/v3"
	"github.com/joho/godotenv"

	zz "github.com/go-task/task/v3/internal/zzsym"
	"github.com/go-task/task/v3/taskfile/ast"
)

// the .env file of the harness: one entry refers to another
var zzDotenv = map[string]string{"ZZ_A": "{{.ZZ_B}}-a", "ZZ_B": "hello"}

//gosmt:stub github.com/joho/godotenv.Read
func zzDotenvRead(filenames ...string) (map[string]string, error) {
	out := map[string]string{}
	for k, v := range zzDotenv {
		out[k] = v
	}
	return out, nil
}

// zzLoadDotenv: what Setup does with `dotenv: ['.env']` (readDotEnvFiles), then the value
// and environment a command of a task sees.
func zzLoadDotenv(dir string) string {
	tf := &ast.Taskfile{Version: semver.MustParse("3"), Vars: ast.NewVars(), Env: ast.NewVars(), Tasks: ast.NewTasks(), Dotenv: []string{".env"}}
	tf.Tasks.Set("t", &ast.Task{Task: "t", Location: &ast.Location{Taskfile: filepath.Join(dir, "Taskfile.yml")}, Vars: ast.NewVars(), Env: ast.NewVars(),
		Cmds: []*ast.Cmd{{Cmd: "echo {{.ZZ_A}}"}}})
	e := &Executor{Taskfile: tf, Dir: dir}
	e.Logger = zzQuietLogger()
	e.Compiler = &Compiler{Dir: dir, TaskfileEnv: tf.Env, TaskfileVars: tf.Vars, Logger: e.Logger}
	if err := e.readDotEnvFiles(); err != nil {
		return "error: " + err.Error()
	}
	ct, err := e.CompiledTask(&Call{Task: "t"})
	if err != nil || ct == nil || len(ct.Cmds) != 1 {
		return fmt.Sprint("error: ", err)
	}
	return ct.Cmds[0].Cmd
}

// ZZ_C09_Dotenv (2-safety): two loads of a Taskfile with a dotenv file whose entries refer
// to each other - each load with its own symbolic order of every Go map range - compute the
// same command line.
func ZZ_C09_Dotenv() {
	dir := ""
	if zz.Native() {
		d, _ := os.MkdirTemp("", "zzdotenv")
		defer os.RemoveAll(d)
		dir = d
		text := ""
		for k, v := range zzDotenv {
			text += k + "='" + v + "'\n"
		}
		os.WriteFile(filepath.Join(dir, ".env"), []byte(text), 0o644)
	} else {
		zzFSReset()
		zzPut(".env", "")
		zzEnviron = []string{"HOME=/h"}
	}
	c1 := zzLoadDotenv(dir)
	c2 := zzLoadDotenv(dir)
	zz.Assert(c1 == c2, "same-command-lines-on-every-load")
	if zz.Native() {
		for k := 0; k < 60; k++ {
			zz.Assert(zzLoadDotenv(dir) == c1, "same-command-lines-on-every-load")
		}
	}
	if zz.Twin() {
		zz.Assert(false, "twin")
	}
	zz.Reach("end")
}

var _ = godotenv.Read

// ZZ_C09_WhenChangedKey (2-safety): the key under which a run: when_changed execution is
// deduplicated is computed twice for the same call - each time with its own symbolic order
// of every Go map range - and must come out the same: otherwise identical calls are
// deduplicated or not at random. The task has several env entries and variables.
func ZZ_C09_WhenChangedKey() {
	zzEnviron = []string{"HOME=/h"}
	tf := &ast.Taskfile{Vars: ast.NewVars(), Env: ast.NewVars(), Tasks: ast.NewTasks(), Run: "when_changed", Method: "checksum"}
	tf.Env.Set("GLOBAL_E", ast.Var{Value: "g"})
	t := &ast.Task{Task: "t", Location: &ast.Location{Taskfile: "/d/f.yml"}, Vars: ast.NewVars(), Env: ast.NewVars(),
		Cmds: []*ast.Cmd{{Cmd: "echo"}}}
	t.Env.Set("E1", ast.Var{Value: "one"})
	t.Env.Set("E2", ast.Var{Value: "two"})
	t.Vars.Set("V1", ast.Var{Value: "x"})
	t.Vars.Set("V2", ast.Var{Value: "y"})
	tf.Tasks.Set("t", t)
	e := &Executor{Taskfile: tf, Stdout: io.Discard, Stderr: io.Discard}
	e.Logger = zzQuietLogger()
	e.Compiler = &Compiler{Dir: "", TaskfileEnv: tf.Env, TaskfileVars: tf.Vars, Logger: e.Logger}
	key := func() string {
		ct, err := e.CompiledTask(&Call{Task: "t"})
		if err != nil || ct == nil {
			return "compile error"
		}
		h, err := e.GetHash(ct)
		if err != nil {
			return "hash error"
		}
		return h
	}
	k1, k2 := key(), key()
	zz.Assert(k1 == k2, "same-deduplication-key-for-the-same-call")
	if zz.Native() {
		for n := 0; n < 60; n++ {
			zz.Assert(key() == k1, "same-deduplication-key-for-the-same-call")
		}
	}
	if zz.Twin() {
		zz.Assert(false, "twin")
	}
	zz.Reach("end")
}

// ZZ_C06_DynamicBinding: two calls of a run: when_changed task whose variables differ only
// in what a dynamic (sh:) call variable evaluates to are two distinct executions; equal
// values are one.
func ZZ_C06_DynamicBinding() {
	v1, v2 := zz.Str("who1", 1, "ab"), zz.Str("who2", 1, "ab")
	zz.Assume(v1 != "" && v2 != "")
	zzEnviron = []string{"HOME=/h"}
	ran := 0
	zzRun = func(ctx context.Context, opts *execext.RunCommandOptions) error {
		if strings.HasPrefix(opts.Command, "echo ") {
			if opts.Stdout != nil {
				_, _ = io.WriteString(opts.Stdout, strings.TrimPrefix(opts.Command, "echo ")+"\n")
			}
			return nil
		}
		ran++
		return nil
	}
	tf := &ast.Taskfile{Vars: ast.NewVars(), Env: ast.NewVars(), Tasks: ast.NewTasks(), Run: "when_changed", Method: "checksum"}
	tf.Tasks.Set("t", &ast.Task{Task: "t", Location: &ast.Location{Taskfile: "/d/f.yml"}, Vars: ast.NewVars(), Env: ast.NewVars(),
		Cmds: []*ast.Cmd{{Cmd: "greet {{.WHO}}"}}})
	sink := &zzLineSink{}
	e := &Executor{Taskfile: tf, Stdout: sink, Stderr: io.Discard, Stdin: strings.NewReader(""), Silent: true, Output: output.Interleaved{}}
	e.Logger = zzQuietLogger()
	e.Compiler = &Compiler{Dir: "", TaskfileEnv: tf.Env, TaskfileVars: tf.Vars, Logger: e.Logger}
	e.setupConcurrencyState()
	call := func(v string) *Call {
		c := &Call{Task: "t", Vars: ast.NewVars()}
		sh := "echo " + v
		c.Vars.Set("WHO", ast.Var{Sh: &sh})
		return c
	}
	if zz.Native() {
		t, _ := tf.Tasks.Get("t")
		t.Cmds[0].Cmd = "echo greet {{.WHO}}"
	}
	err := e.Run(context.Background(), call(v1), call(v2))
	if zz.Native() {
		ran = 0
		for _, l := range sink.lines {
			ran += strings.Count(l, "greet") // (the shell may write a line in pieces)
		}
	}
	zz.Assert(err == nil, "runs-succeed")
	if v1 == v2 {
		zz.Assert(ran == 1, "when_changed/one-execution-per-distinct-binding")
	} else {
		zz.Assert(ran == 2, "when_changed/one-execution-per-distinct-binding")
	}
	if zz.Twin() {
		zz.Assert(false, "twin")
	}
	zz.Reach("end")
}

// ZZ_C06_EffectiveRunMode: which deduplication a task gets is decided by its own run: when it
// has one (also when that is `always`) and by the Taskfile's otherwise; the key of the
// execution is empty for always, the same for all bindings for once, and different for
// different bindings for when_changed.
func ZZ_C06_EffectiveRunMode() {
	taskRun := zzRunModes[zz.Choose("run_of_the_task", 4)]
	fileRun := zzRunModes[1+zz.Choose("run_of_the_taskfile", 3)] // (setup turns an unset one into always)
	v1, v2 := zz.Str("v1", 1, "ab"), zz.Str("v2", 1, "ab")
	zz.Assume(v1 != v2)
	tf := &ast.Taskfile{Vars: ast.NewVars(), Env: ast.NewVars(), Tasks: ast.NewTasks(), Run: fileRun, Method: "checksum"}
	e := &Executor{Taskfile: tf, Stdout: io.Discard, Stderr: io.Discard}
	key := func(v string) string {
		ct := &ast.Task{Task: "t", Run: taskRun, Location: &ast.Location{Taskfile: "/d/f.yml"}, Vars: ast.NewVars(), Env: ast.NewVars()}
		ct.Vars.Set("V", ast.Var{Value: v})
		h, err := e.GetHash(ct)
		if err != nil {
			return "error"
		}
		return h
	}
	h1, h2 := key(v1), key(v2)
	eff := taskRun
	if eff == "" {
		eff = fileRun
	}
	switch eff {
	case "always":
		zz.Assert(h1 == "" && h2 == "", "run-mode/always-is-never-deduplicated")
	case "once":
		zz.Assert(h1 != "" && h1 != "error" && h1 == h2, "run-mode/once-has-one-key-for-all-bindings")
	case "when_changed":
		zz.Assert(h1 != "" && h2 != "" && h1 != "error" && h2 != "error" && h1 != h2, "run-mode/when_changed-has-a-key-per-binding")
	}
	if zz.Twin() {
		zz.Assert(false, "twin")
	}
	zz.Reach("end")
}
