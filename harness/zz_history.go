package task

import (
	"context"
	"fmt"
	"io"
	"os"
	"path/filepath"
	"sort"
	"strings"
	"time"

	"mvdan.cc/sh/v3/interp"

	"github.com/go-task/task/v3/internal/execext"
	"github.com/go-task/task/v3/internal/fingerprint"
	"github.com/go-task/task/v3/internal/logger"
	"github.com/go-task/task/v3/internal/output"
	zz "github.com/go-task/task/v3/internal/zzsym"
	"github.com/go-task/task/v3/taskfile/ast"
)

// ---- project directory abstraction: model (symbolic run) or a real temp dir (replay) -------

type zzProject struct {
	root string // "" in the model
}

func zzNewProject() *zzProject {
	if zz.Native() {
		d, _ := os.MkdirTemp("", "zzhist")
		d, _ = filepath.EvalSymlinks(d)
		return &zzProject{root: d}
	}
	zzFSReset()
	return &zzProject{}
}

func (p *zzProject) path(name string) string {
	if p.root == "" {
		return name
	}
	return filepath.Join(p.root, name)
}

func (p *zzProject) put(name, content string) {
	if zz.Native() {
		time.Sleep(15 * time.Millisecond)
		os.MkdirAll(filepath.Dir(p.path(name)), 0o755)
		os.WriteFile(p.path(name), []byte(content), 0o644)
		return
	}
	zzPut(name, content)
}

// dangling creates a symbolic link whose target does not exist.
func (p *zzProject) dangling(name string) {
	if zz.Native() {
		os.Symlink(p.path("nowhere"), p.path(name))
		return
	}
	zzDangling[name] = true
}

func (p *zzProject) touch(name string) {
	if zz.Native() {
		time.Sleep(15 * time.Millisecond)
		now := time.Now()
		os.Chtimes(p.path(name), now, now)
		return
	}
	if f, ok := zzFS[name]; ok {
		f.mtime = zzTick()
	}
}

func (p *zzProject) remove(name string) {
	if zz.Native() {
		os.Remove(p.path(name))
		return
	}
	delete(zzFS, name)
}

func (p *zzProject) exists(name string) bool {
	if zz.Native() {
		_, err := os.Stat(p.path(name))
		return err == nil
	}
	_, ok := zzFS[name]
	return ok
}

// snapshot describes the whole tree (names, kinds, contents, mtimes).
func (p *zzProject) snapshot() string {
	if zz.Native() {
		var lines []string
		filepath.Walk(p.root, func(path string, info os.FileInfo, err error) error {
			if err != nil || path == p.root {
				return nil
			}
			rel, _ := filepath.Rel(p.root, path)
			l := rel
			if info.IsDir() {
				l += "/"
			} else {
				b, _ := os.ReadFile(path)
				l += fmt.Sprintf(" %d %q %d", info.Size(), b, info.ModTime().UnixNano())
			}
			lines = append(lines, l)
			return nil
		})
		sort.Strings(lines)
		return strings.Join(lines, "\n")
	}
	return fmt.Sprint(len(zzFSLog))
}

// ---- the task under test ---------------------------------------------------------------------

const (
	zzModeRun = iota
	zzModeDry
	zzModeStatus
	zzModeListJSON
	zzModeForce
	zzModeSummary
	zzModeSibling // `all: deps [build, lint]` where lint fails: build may be cancelled mid-run
	zzNModes
	// zzModeKilled (outside the range the general histories choose from): a normal run whose
	// process is killed while command killAt is running
	zzModeKilled = zzNModes
)

var zzModeNames = []string{"run", "dry", "status", "list-json", "force", "summary", "run-with-failing-sibling", "run-killed-part-way"}

type zzHist struct {
	p         *zzProject
	method    string
	hasPrompt bool
	hasGen    bool
	twoCmds   bool
	label     string
	target    string // task named in dry runs
	sibling   bool   // the Taskfile of this step has the all/lint tasks
	methodOnTask bool // method: set on the task, the Taskfile says the other one
	reinclude    bool // sources re-include the excluded file
	nestedGuard  bool // the task ends with a call of a task that has a precondition
	preFails     bool // ... which fails in this step
	instances bool   // label and sources depend on the call variable T
	inst      string // value of T in this step
	killAt    string // probe during which the process of this step is killed ("" = not killed)
	cmdIgnore   bool // the commands of the task have ignore_error: true
	twoGen      bool // a second generates entry (out2), written together with the first
	genEarly    bool // the first command writes the generated file, a later one may fail
	hasStatus   bool // the task also has a status: command
	statusFails bool // ... which fails in this step
	exit      map[string]uint8
	ran       []string // probes started in the current step
}

func (h *zzHist) taskfile() *ast.Taskfile {
	tf := &ast.Taskfile{Vars: ast.NewVars(), Env: ast.NewVars(), Tasks: ast.NewTasks(), Run: "always", Method: h.method}
	if h.methodOnTask { // the Taskfile-level method is the other one; the task overrides it
		tf.Method = map[string]string{"checksum": "timestamp", "timestamp": "checksum"}[h.method]
	}
	t := &ast.Task{Task: "build", Label: h.label, Location: &ast.Location{Taskfile: h.p.path("Taskfile.yml")}, Vars: ast.NewVars(), Env: ast.NewVars(),
		Dir:     h.p.root,
		Sources: []*ast.Glob{{Glob: "*.src"}, {Glob: "skip.src", Negate: true}},
	}
	if h.methodOnTask {
		t.Method = h.method
	}
	if h.reinclude { // a later entry brings the excluded file back
		t.Sources = append(t.Sources, &ast.Glob{Glob: "skip.src"})
	}
	if h.nestedGuard { // a sub-call whose precondition fails
		t.Cmds = append(t.Cmds, &ast.Cmd{Task: "check"})
		tf.Tasks.Set("check", &ast.Task{Task: "check", Location: &ast.Location{Taskfile: h.p.path("Taskfile.yml")}, Vars: ast.NewVars(), Env: ast.NewVars(),
			Dir: h.p.root, Preconditions: []*ast.Precondition{{Sh: h.preText(), Msg: "no"}}, Cmds: []*ast.Cmd{{Cmd: h.otherText()}}})
	}
	if h.instances {
		t.Label = "build-{{.T}}"
		t.Sources = []*ast.Glob{{Glob: "{{.T}}.src"}}
	}
	if h.hasGen {
		t.Generates = []*ast.Glob{{Glob: "out"}}
		if h.twoGen {
			t.Generates = append(t.Generates, &ast.Glob{Glob: "out2"})
		}
	}
	if h.hasPrompt {
		t.Prompt = []string{"sure?"}
	}
	if h.hasStatus {
		t.Status = []string{h.statusText()}
	}
	n := 1
	if h.twoCmds {
		n = 2
	}
	for k := 0; k < n; k++ {
		t.Cmds = append(t.Cmds, &ast.Cmd{Cmd: h.cmdText(k, k == n-1), IgnoreError: h.cmdIgnore})
	}
	tf.Tasks.Set("build", t)
	// a second task without sources, never run: must stay untouched by queries
	other := &ast.Task{Task: "other", Location: t.Location, Vars: ast.NewVars(), Env: ast.NewVars(),
		Dir: h.p.root, Sources: []*ast.Glob{{Glob: "*.src"}}, Cmds: []*ast.Cmd{{Cmd: h.otherText()}}}
	_ = other // (a second fingerprinted task multiplies the listing goroutines' interleavings; kept for the thorough tier)
	if zz.Param("second_task", 0) == 1 {
		tf.Tasks.Set("other", other)
	}
	if h.sibling {
		lint := &ast.Task{Task: "lint", Location: t.Location, Vars: ast.NewVars(), Env: ast.NewVars(), Dir: h.p.root, Cmds: []*ast.Cmd{{Cmd: h.lintText()}}}
		tf.Tasks.Set("lint", lint)
		tf.Tasks.Set("all", &ast.Task{Task: "all", Location: t.Location, Vars: ast.NewVars(), Env: ast.NewVars(), Dir: h.p.root,
			Deps: []*ast.Dep{{Task: "build"}, {Task: "lint"}}})
	}
	if h.target == "indir" {
		// a task whose directory does not exist yet
		indir := &ast.Task{Task: "indir", Location: t.Location, Vars: ast.NewVars(), Env: ast.NewVars(),
			Dir: h.p.path("newdir"), Cmds: []*ast.Cmd{{Cmd: h.otherText()}}}
		tf.Tasks.Set("indir", indir)
	}
	return tf
}

func (h *zzHist) statusText() string {
	if zz.Native() {
		return "test ! -f statusfail"
	}
	return "stat S"
}

func (h *zzHist) preText() string {
	if zz.Native() {
		return "test ! -f guardfail"
	}
	return "pre G"
}

func (h *zzHist) lintText() string {
	if zz.Native() {
		return "echo S:lint.0; sleep 0.2; exit 1"
	}
	return "hprobe lint.0 0"
}

func (h *zzHist) otherText() string {
	if zz.Native() {
		return "echo S:other.0"
	}
	return "hprobe other.0 0"
}

// command k of the build task: reports itself, fails with the step's status, and the
// last one writes the generated file when it succeeds.
func (h *zzHist) cmdText(k int, last bool) string {
	id := zzProbeID("build", k)
	if zz.Native() {
		// `read` on a stdin that never delivers blocks inside the in-process shell: the
		// invocation is then abandoned, which is what a kill at this point leaves behind
		s := fmt.Sprintf("echo S:%s; test -f kill.%s && read zzline; test -f fail.%s && exit 3; ", id, id, id)
		if h.sibling {
			s += "sleep 1; "
		}
		if h.hasGen && ((last && !h.genEarly) || (k == 0 && h.genEarly)) {
			s += "echo built > out; "
			if h.twoGen {
				s += "echo built > out2; "
			}
		}
		return s + fmt.Sprintf("echo F:%s:0", id)
	}
	if h.hasGen && ((last && !h.genEarly) || (k == 0 && h.genEarly)) {
		return "hprobe " + id + " 1"
	}
	return "hprobe " + id + " 0"
}

// zzHistShell: the shell of the model.
func (h *zzHist) shell(ctx context.Context, opts *execext.RunCommandOptions) error {
	f := strings.Fields(opts.Command)
	if strings.HasPrefix(opts.Command, "stat ") { // the status command of the task
		if h.statusFails {
			return interp.NewExitStatus(1)
		}
		return nil
	}
	if strings.HasPrefix(opts.Command, "pre ") { // the precondition of the nested task
		if h.preFails {
			return interp.NewExitStatus(1)
		}
		return nil
	}
	if len(f) != 3 || f[0] != "hprobe" {
		return nil
	}
	if err := ctx.Err(); err != nil {
		return err
	}
	id := f[1]
	h.ran = append(h.ran, id)
	zz.Emit("S", id, 0)
	if id == h.killAt {
		zz.Kill() // the whole process dies here
	}
	if err := ctx.Err(); err != nil { // cancelled while running: killed
		zz.Emit("K", id, 0)
		return err
	}
	if st := h.exit[id]; st != 0 {
		zz.Emit("F", id, int(st))
		return interp.NewExitStatus(st)
	}
	if f[2] == "1" {
		zzWriteFileQuiet("out", "built")
		if h.twoGen {
			zzWriteFileQuiet("out2", "built")
		}
	}
	zz.Emit("F", id, 0)
	return nil
}

var errZZKilled = fmt.Errorf("zz: killed")

func zzWriteFileQuiet(name, content string) { zzFS[name] = &zzFile{content: content, mtime: zzTick()} }

type zzStepResult struct {
	err      error
	started  bool // some command of build started
	complete bool // all commands of build ran and succeeded
	changed  bool // the project tree (outside the commands' own effects) changed
}

// step performs one Task invocation on a fresh Executor.
func (h *zzHist) step(k int, mode int, yes bool, failCmd int) zzStepResult {
	h.exit = map[string]uint8{}
	ncmd := 1
	if h.twoCmds {
		ncmd = 2
	}
	if failCmd >= 0 && failCmd < ncmd {
		id := zzProbeID("build", failCmd)
		h.exit[id] = 3
		if zz.Native() {
			os.WriteFile(h.p.path("fail."+id), nil, 0o644)
		}
	}
	h.sibling = mode == zzModeSibling
	if h.sibling {
		h.exit["lint.0"] = 1
	}
	h.ran = nil
	zzRun = h.shell
	zzEnviron = []string{"HOME=/h"}
	tf := h.taskfile()
	var sink *zzSink
	var out io.Writer = io.Discard
	if zz.Native() {
		sink = zzNewSink()
		sink.step = 0
		out = sink
	}
	e := &Executor{Taskfile: tf, Dir: h.p.root, Stdout: out, Stderr: io.Discard, Stdin: strings.NewReader(""), Output: output.Interleaved{}, Silent: true,
		AssumeYes: yes, TempDir: TempDir{Fingerprint: h.p.path(".task")}}
	e.Logger = &logger.Logger{Stdout: io.Discard, Stderr: io.Discard, AssumeYes: yes, Stdin: strings.NewReader("")}
	e.Compiler = &Compiler{Dir: h.p.root, TaskfileEnv: tf.Env, TaskfileVars: tf.Vars, Logger: e.Logger}
	e.setupConcurrencyState()
	before := len(zz.Trace())
	snap := ""
	readOnly := mode == zzModeDry || mode == zzModeStatus || mode == zzModeListJSON || mode == zzModeSummary
	if readOnly {
		snap = h.p.snapshot()
	}
	var err error
	switch mode {
	case zzModeRun:
		call := &Call{Task: "build"}
		if h.instances {
			call.Vars = ast.NewVars()
			call.Vars.Set("T", ast.Var{Value: h.inst})
		}
		err = e.Run(context.Background(), call)
	case zzModeSibling:
		err = e.Run(context.Background(), &Call{Task: "all"})
	case zzModeKilled:
		call := &Call{Task: "build"}
		if zz.Native() {
			pr, _ := io.Pipe() // never written to
			e.Stdin = pr
			os.WriteFile(h.p.path("kill."+h.killAt), nil, 0o644)
			done := make(chan error, 1)
			go func() { done <- e.Run(context.Background(), call) }()
			deadline := time.Now().Add(8 * time.Second)
		wait:
			for time.Now().Before(deadline) {
				select {
				case err = <-done: // the kill point was never reached (skipped, or failed before)
					break wait
				default:
				}
				if zzCount(zz.Trace()[before:], "S", h.killAt) > 0 {
					time.Sleep(50 * time.Millisecond)
					err = errZZKilled // the invocation stays blocked for good: abandoned
					break wait
				}
				time.Sleep(5 * time.Millisecond)
			}
			os.Remove(h.p.path("kill." + h.killAt))
		} else if zz.Try(func() { err = e.Run(context.Background(), call) }) {
			err = errZZKilled
		}
	case zzModeForce:
		e.Force = true
		err = e.Run(context.Background(), &Call{Task: "build"})
	case zzModeDry:
		e.Dry = true
		err = e.Run(context.Background(), &Call{Task: h.target})
	case zzModeSummary:
		e.Summary = true
		err = e.Run(context.Background(), &Call{Task: "build"})
	case zzModeStatus:
		e.Dry = true // --status implies dry mode (flags.WithFlags)
		err = e.Status(context.Background(), &Call{Task: "build"})
	case zzModeListJSON:
		tasks, lerr := e.GetTaskList()
		if lerr == nil {
			_, lerr = e.ToEditorOutput(tasks, false)
		}
		err = lerr
	}
	if zz.Native() {
		for _, id := range []string{"build.0", "build.1"} {
			os.Remove(h.p.path("fail." + id))
		}
	}
	tr := zz.Trace()[before:]
	r := zzStepResult{err: err}
	nstarted := 0
	for _, ev := range tr {
		if ev.Kind == "S" && strings.HasPrefix(ev.ID, "build.") {
			r.started = true
			nstarted++
		}
	}
	nfinished := 0
	for _, ev := range tr {
		if ev.Kind == "F" && ev.Val == 0 && strings.HasPrefix(ev.ID, "build.") {
			nfinished++
		}
	}
	r.complete = nstarted == ncmd && (err == nil || (mode == zzModeSibling && nfinished == ncmd))
	if zz.Native() && mode == zzModeSibling {
		// natively the finish of a command is not reported: the build completed iff its
		// last command produced the generated file / the run had no error
		r.complete = err == nil
	}
	if readOnly {
		r.changed = h.p.snapshot() != snap
	}
	return r
}

// ZZ_H_History: histories of invocations and file operations over one task with
// sources. prop selects which property's assertions are active (4, 5 or 12).
func ZZ_H_History() {
	prop := zz.Param("prop", 4)
	h := &zzHist{p: zzNewProject()}
	if zz.Native() {
		defer os.RemoveAll(h.p.root)
	}
	methods := []string{"checksum", "timestamp"}
	h.method = methods[zz.Choose("method", 2)]
	// the kill history varies the kill point, and the long histories of the thorough tier the
	// history (slim=1): not the task-shape dimensions below, which the short histories cover
	// (a command with ignore_error that is cancelled by a sibling's failure did not succeed)
	h.cmdIgnore = zz.Param("sibling_history", 0) == 1 && zz.Bool("build_commands_have_ignore_error")
	focusKill := zz.Param("kill_history", 0) == 1 || zz.Param("slim", 0) == 1
	h.hasPrompt = zz.Param("sibling_history", 0) == 0 && !focusKill && zz.Bool("has_prompt")
	h.hasGen = zz.Bool("has_generates")
	if zz.Param("gen_history", 0) == 1 { // focused history: two generates entries, either may go missing
		zz.Assume(h.hasGen)
		h.twoGen = true
	}
	h.twoCmds = zz.Param("two_cmds", 0) == 1 && zz.Bool("two_cmds")
	if zz.Param("early_gen_history", 0) == 1 { // focused history: the first of two commands writes the generated file
		zz.Assume(h.hasGen)
		h.twoCmds, h.genEarly = true, true
	}
	h.methodOnTask = prop != 12 && !focusKill && zz.Bool("method_set_on_task")
	h.reinclude = (prop == 5 || prop == 4) && !focusKill && zz.Bool("sources_reinclude_excluded_file")
	h.nestedGuard = prop == 12 && !focusKill && zz.Bool("nested_call_with_failing_guard")
	h.hasStatus = zz.Param("status_history", 0) == 1 // focused history: the task also has a status: command
	zzPreFail = true
	h.p.put("a.src", "v0")
	h.p.put("skip.src", "s0")
	if zz.Param("dangling_history", 0) == 1 { // focused history: a link to nowhere sits among the sources
		h.p.dangling("z.src")
	}
	// ghost state: the source version for which the most recent attempt to run the
	// commands succeeded completely (-1: none, or the last attempt did not succeed)
	version := 0
	okVersion := -1
	last := "nothing" // how the most recent attempt to run the commands ended
	since := ""       // "+<query>" when a read-only invocation came after it
	steps := zz.Param("steps", 2)
	for k := 0; k < steps; k++ {
		// file operations before the step
		if k > 0 {
			op := zz.Choose(fmt.Sprintf("op%d", k), 7)
			if zz.Param("removal_history", 0) == 1 {
				op = 7 // focused history: the file operation is the removal of a matched file
			}
			switch op {
			case 7: // a matched file is removed
				if h.p.exists("a.src") {
					h.p.remove("a.src")
					version++
				}
			case 1:
				version++
				h.p.put("a.src", fmt.Sprintf("v%d", version))
			case 2: // modification time only (nothing happens when a.src was renamed away)
				if h.p.exists("a.src") {
					h.p.touch("a.src")
					if h.method == "timestamp" {
						version++
					}
				}
			case 3: // a new matching file; written again it only gets a new modification time
				if !h.p.exists("b.src") || h.method == "timestamp" {
					version++
				}
				h.p.put("b.src", "b")
			case 4:
				if h.hasGen && h.p.exists("out") {
					h.p.remove("out")
				}
				if h.twoGen && zz.Bool(fmt.Sprintf("remove_second_generated_file_instead%d", k)) {
					// (the first one was just removed: put it back, remove the other)
					h.p.put("out", "built")
					if h.p.exists("out2") {
						h.p.remove("out2")
					}
				}
			case 5: // an excluded file changes (unless a later sources entry re-includes it)
				h.p.put("skip.src", fmt.Sprintf("s%d", k))
				if h.reinclude {
					version++
				}
			case 6: // rename a.src -> c.src
				if h.p.exists("a.src") && !h.p.exists("c.src") {
					h.p.remove("a.src")
					h.p.put("c.src", fmt.Sprintf("v%d", version))
					version++
				}
			}
		}
		mode := zz.Choose(fmt.Sprintf("mode%d", k), zzNModes)
		h.killAt = ""
		if zz.Param("kill_history", 0) == 1 {
			// focused history: runs, then a run killed while one of its commands is
			// running, then a plain run
			switch {
			case k == steps-2:
				zz.Assume(mode == zzModeRun)
				mode = zzModeKilled
				ncmd := 1
				if h.twoCmds {
					ncmd = 2
				}
				h.killAt = zzProbeID("build", zz.Choose(fmt.Sprintf("killed_during_command%d", k), ncmd))
			case k == steps-1:
				zz.Assume(mode == zzModeRun)
			default:
				zz.Assume(mode == zzModeRun || mode == zzModeForce)
			}
		}
		yes := !h.hasPrompt || zz.Bool(fmt.Sprintf("yes%d", k))
		nfail := 2
		if h.twoCmds {
			nfail = 3
		}
		failCmd := -1
		if zz.Param("sibling_history", 0) == 1 {
			// focused history: run next to a failing sibling, then run again
			want := zzModeRun
			if k == 0 {
				want = zzModeSibling
			}
			zz.Assume(mode == want)
		} else if mode == zzModeSibling {
			zz.Assume(false) // covered by the focused history (registered separately)
		}
		if h.hasStatus || h.twoGen || h.genEarly || zz.Param("removal_history", 0) == 1 || zz.Param("dangling_history", 0) == 1 {
			zz.Assume(mode != zzModeForce) // forced runs are the subject of the plain histories
		}
		if zz.Param("query_history", 0) == 1 {
			// focused history: run; file operation; read-only invocation; run
			switch k {
			case 1:
				zz.Assume(mode == zzModeDry || mode == zzModeStatus || mode == zzModeListJSON || mode == zzModeSummary)
			default:
				zz.Assume(mode == zzModeRun)
			}
		}
		if mode == zzModeRun || mode == zzModeForce {
			failCmd = zz.Choose(fmt.Sprintf("fail%d", k), nfail) - 1
		}
		h.preFails = h.nestedGuard && zz.Bool(fmt.Sprintf("nested_guard_fails%d", k))
		h.statusFails = h.hasStatus && zz.Bool(fmt.Sprintf("status_fails%d", k))
		if zz.Native() && h.hasStatus {
			if h.statusFails {
				os.WriteFile(h.p.path("statusfail"), nil, 0o644)
			} else {
				os.Remove(h.p.path("statusfail"))
			}
		}
		if zz.Native() && h.nestedGuard {
			// natively the precondition is `test ! -f guardfail`
			if h.preFails {
				os.WriteFile(h.p.path("guardfail"), nil, 0o644)
			} else {
				os.Remove(h.p.path("guardfail"))
			}
		}
		h.target = "build"
		if prop == 12 && mode == zzModeDry && !focusKill && zz.Bool(fmt.Sprintf("dry_target_has_missing_dir%d", k)) {
			h.target = "indir"
		}
		allowedSkip := okVersion == version && (!h.hasGen || h.p.exists("out")) && (!h.twoGen || h.p.exists("out2"))
		r := h.step(k, mode, yes, failCmd)
		tag := fmt.Sprintf("%s/%s", h.method, zzModeNames[mode])
		switch mode {
		case zzModeSibling:
			// build runs as a dependency next to a failing sibling: it may complete, be
			// killed part-way, or be cancelled before it starts. No verdict is asserted in
			// this step; only the ghost is updated (an attempt that did not complete
			// invalidates, an untouched up-to-date task stays valid).
			switch {
			case r.started && r.complete:
				okVersion = version
				last, since = "success", ""
			case r.started:
				okVersion = -1
				last, since = "cancelled-by-failing-sibling", ""
			case !allowedSkip:
				okVersion = -1
				last, since = "cancelled-by-failing-sibling", ""
			}
		case zzModeRun, zzModeForce, zzModeKilled:
			skipped := !r.started && r.err == nil
			if prop == 4 && skipped {
				zz.Assert(allowedSkip, "skip-only-after-a-successful-attempt-for-this-fingerprint/"+h.method+"/after-"+last+since)
			}
			if prop == 5 {
				if mode == zzModeForce {
					if !h.hasPrompt || yes {
						zz.Assert(r.started, "force-runs-the-commands/"+h.method)
					}
				} else if allowedSkip && !h.statusFails {
					zz.Assert(skipped, "unchanged-task-is-skipped/"+h.method+"/after-"+last+since)
				} else if allowedSkip {
					// sources unchanged but the status command fails: not up to date
					if !h.hasPrompt || yes {
						zz.Assert(r.started, "failing-status-runs-the-commands/"+h.method)
					}
				} else if !h.hasPrompt || yes {
					zz.Assert(r.started, "changed-task-runs-again/"+h.method+"/after-"+last+since)
				}
			}
			// ghost update: an attempt happened unless the task was skipped
			if !skipped {
				since = ""
				if r.complete {
					okVersion = version
					last = "success"
					if mode == zzModeForce {
						last = "forced-success"
					}
				} else {
					okVersion = -1
					switch {
					case r.err == errZZKilled:
						last = "killed-part-way"
					case r.started && mode == zzModeForce:
						last = "forced-command-failed"
					case r.started:
						last = "command-failed"
					case h.hasPrompt && !yes:
						last = "prompt-declined"
					default:
						last = "error-before-commands"
					}
				}
			}
		default:
			if prop == 12 {
				zz.Assert(!r.started, "query-runs-no-command/"+tag)
				zz.Assert(!r.changed, "query-leaves-the-project-tree-unchanged/"+tag)
			}
			since = "+" + zzModeNames[mode]
		}
	}
	if zz.Twin() {
		zz.Assert(false, "twin")
	}
	zz.Reach("end")
}

// ZZ_H_Instances: a task whose label and sources depend on a call variable is run
// for two values in an arbitrary order: the fingerprint state of one instance must
// neither make another instance skip its first run nor force a needless re-run.
func ZZ_H_Instances() {
	h := &zzHist{p: zzNewProject()}
	if zz.Native() {
		defer os.RemoveAll(h.p.root)
	}
	methods := []string{"checksum", "timestamp"}
	h.method = methods[zz.Choose("method", 2)]
	h.instances = true
	same := zz.Bool("same_content")
	h.p.put("a.src", "v0")
	if same {
		h.p.put("b.src", "v0")
	} else {
		h.p.put("b.src", "w0")
	}
	insts := []string{"a", "b"}
	if pair := zz.Choose("instance_names_differ_only_in_punctuation", 3); pair > 0 {
		// labels build-p:q and build-p-q (one of them is its own normal form), or build-p:q
		// and build-p.q (neither is): different tasks must not share fingerprint state
		insts = [][]string{nil, {"p:q", "p-q"}, {"p:q", "p.q"}}[pair]
		h.p.put(insts[0]+".src", "v0")
		if same {
			h.p.put(insts[1]+".src", "v0")
		} else {
			h.p.put(insts[1]+".src", "w0")
		}
	}
	version := map[string]int{insts[0]: 0, insts[1]: 0}
	okVersion := map[string]int{insts[0]: -1, insts[1]: -1}
	steps := zz.Param("steps", 3)
	for k := 0; k < steps; k++ {
		inst := insts[zz.Choose(fmt.Sprintf("instance%d", k), 2)]
		if k > 0 && zz.Bool(fmt.Sprintf("edit%d", k)) {
			version[inst]++
			h.p.put(inst+".src", fmt.Sprintf("v%d-%s", version[inst], inst))
		}
		h.inst = inst
		allowedSkip := okVersion[inst] == version[inst]
		r := h.step(k, zzModeRun, true, -1)
		skipped := !r.started && r.err == nil
		if skipped {
			zz.Assert(allowedSkip, "instance/skip-only-after-its-own-successful-run/"+h.method)
		}
		if allowedSkip {
			zz.Assert(skipped, "instance/unchanged-instance-is-skipped/"+h.method)
		}
		if !skipped {
			if r.complete {
				okVersion[inst] = version[inst]
			} else {
				okVersion[inst] = -1
			}
		}
	}
	if zz.Twin() {
		zz.Assert(false, "twin")
	}
	zz.Reach("end")
}

// ZZ_C05_ChecksumFraming (2-safety on the checksum of a source tree): two trees of up to two
// files (a.src and optionally b.src, symbolic contents) that differ in a file's presence or
// contents have different checksums. The symbolic run searches the stream model of the
// checksum (see zzChecksum); the native replay computes the real xxh3 checksums.
func ZZ_C05_ChecksumFraming() {
	p := zzNewProject()
	if zz.Native() {
		defer os.RemoveAll(p.root)
	}
	alpha := "ab.src"
	a1, b1 := zz.Str("tree1.a.src", 5, alpha), zz.Str("tree1.b.src", 5, alpha)
	a2, b2 := zz.Str("tree2.a.src", 5, alpha), zz.Str("tree2.b.src", 5, alpha)
	hasB1, hasB2 := zz.Bool("tree1.has_b.src"), zz.Bool("tree2.has_b.src")
	// case split on the lengths (0, 1 or 5 bytes: nothing, a byte, a whole file name): with
	// them fixed the framed stream is a concatenation of fixed-length pieces
	lens := []int{0, 1, 5}
	for k, c := range []string{a1, b1, a2, b2} {
		zz.Assume(len(c) == lens[zz.Choose(fmt.Sprintf("length_class_%d", k), len(lens))])
	}
	same := a1 == a2 && hasB1 == hasB2 && (!hasB1 || b1 == b2)
	zz.Assume(!same)
	t := &ast.Task{Task: "build", Dir: p.root, Sources: []*ast.Glob{{Glob: "*.src"}}}
	sum := func(a string, hasB bool, b string) string {
		p.put("a.src", a)
		if hasB {
			p.put("b.src", b)
		} else {
			p.remove("b.src")
		}
		v, err := fingerprint.NewChecksumChecker(p.path(".task"), true).Value(t)
		s, _ := v.(string)
		if err != nil {
			return "error"
		}
		return s
	}
	s1 := sum(a1, hasB1, b1)
	s2 := sum(a2, hasB2, b2)
	zz.Assert(s1 != s2, "different-source-trees-have-different-checksums")
	if zz.Twin() {
		zz.Assert(false, "twin")
	}
	zz.Reach("end")
}
