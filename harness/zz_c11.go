package task

import (
	"mvdan.cc/sh/v3/interp"
	"context"
	"io"
	"os"
	"path/filepath"
	"strings"

	"github.com/go-task/task/v3/internal/execext"
	"github.com/go-task/task/v3/internal/output"
	zz "github.com/go-task/task/v3/internal/zzsym"
	"github.com/go-task/task/v3/taskfile/ast"
)

// zzWhereShell is the shell of the C11 harnesses: the output of a command is a
// function of the command text, the directory and the value of E in its
// environment ("whereami" prints dir and $E).
func zzWhereShell(ctx context.Context, opts *execext.RunCommandOptions) error {
	e := ""
	for _, kv := range opts.Env {
		if strings.HasPrefix(kv, "ZZE=") {
			e = strings.TrimPrefix(kv, "ZZE=")
		}
	}
	if opts.Stdout != nil {
		_, _ = io.WriteString(opts.Stdout, opts.Dir+"|"+e+"\n")
	}
	return nil
}

func zzC11Executor(tf *ast.Taskfile, dir string) *Executor {
	e := &Executor{Taskfile: tf, Dir: dir, Stdout: io.Discard, Stderr: io.Discard}
	e.Logger = zzQuietLogger()
	e.Compiler = &Compiler{Dir: dir, TaskfileEnv: tf.Env, TaskfileVars: tf.Vars, Logger: e.Logger}
	return e
}

// ZZ_C11_DynamicVar: a dynamic (sh:) variable is evaluated in the task's own
// directory (and environment), whatever other task evaluated the same command
// text earlier in the invocation.
func ZZ_C11_DynamicVar() {
	zzRun = zzWhereShell
	zzEnviron = []string{"HOME=/h"}
	root := "/d"
	cmd := "whereami"
	if zz.Native() {
		root, _ = os.MkdirTemp("", "zzc11")
		root, _ = filepath.EvalSymlinks(root)
		defer os.RemoveAll(root)
		os.MkdirAll(filepath.Join(root, "d1"), 0o755)
		os.MkdirAll(filepath.Join(root, "d2"), 0o755)
		cmd = `echo "$PWD|$ZZE"`
	}
	sameDir := zz.Bool("same_dir")
	e1, e2 := zz.Str("env1", 1, "ab"), zz.Str("env2", 1, "ab")
	order := zz.Choose("first_compiled", 2)
	mk := func(name, dir, ev string) *ast.Task {
		t := &ast.Task{Task: name, Dir: dir, Location: &ast.Location{Taskfile: root + "/Taskfile.yml"}, Vars: ast.NewVars(), Env: ast.NewVars()}
		sh := cmd
		t.Vars.Set("ZZE", ast.Var{Value: ev})
		t.Vars.Set("P", ast.Var{Sh: &sh})
		return t
	}
	d2 := "d2"
	if sameDir {
		d2 = "d1"
	}
	tf := &ast.Taskfile{Vars: ast.NewVars(), Env: ast.NewVars(), Tasks: ast.NewTasks(), Run: "always", Method: "checksum"}
	tf.Tasks.Set("t1", mk("t1", "d1", e1))
	tf.Tasks.Set("t2", mk("t2", d2, e2))
	e := zzC11Executor(tf, root)
	names := []string{"t1", "t2"}
	if order == 1 {
		names = []string{"t2", "t1"}
	}
	for k, n := range names {
		when := "cold-cache"
		if k == 1 {
			when = "after-the-same-command-ran-for-another-task"
		}
		ct, err := e.CompiledTask(&Call{Task: n})
		zz.Assert(err == nil && ct != nil, "compiles")
		if err != nil || ct == nil {
			return
		}
		p, _ := ct.Vars.Get("P")
		ps, _ := p.Value.(string)
		wantDir, wantEnv := root+"/d1", e1
		if n == "t2" {
			wantDir, wantEnv = root+"/"+d2, e2
		}
		got := strings.SplitN(ps, "|", 2)
		zz.Assert(len(got) == 2 && got[0] == wantDir, "dynamic-var-evaluated-in-own-directory/"+when)
		if len(got) == 2 {
			zz.Assert(got[1] == wantEnv, "dynamic-var-evaluated-in-own-environment/"+when)
		}
	}
	if zz.Twin() {
		zz.Assert(false, "twin")
	}
	zz.Reach("end")
}

// ZZ_C11_FailingDynamicVar: a dynamic variable whose command prints something and then
// (symbolically) fails: compiling the task fails every time it is compiled, also after an
// earlier compilation (of the same or of another task with the same command text) already
// ran the command; what a failed command printed is nobody's value.
func ZZ_C11_FailingDynamicVar() {
	fails := zz.Bool("command_fails_after_printing")
	out := zz.Str("printed", 2, "ab")
	zz.Assume(out != "")
	zzRun = func(ctx context.Context, opts *execext.RunCommandOptions) error {
		if opts.Stdout != nil {
			_, _ = io.WriteString(opts.Stdout, out+"\n")
		}
		if fails {
			return interp.NewExitStatus(3)
		}
		return nil
	}
	zzEnviron = []string{"HOME=/h"}
	cmd := "rev"
	if zz.Native() {
		cmd = "echo " + out
		if fails {
			cmd += "; exit 3"
		}
	}
	tf := &ast.Taskfile{Vars: ast.NewVars(), Env: ast.NewVars(), Tasks: ast.NewTasks(), Run: "always", Method: "checksum"}
	for _, n := range []string{"fetch", "publish"} {
		sh := cmd
		t := &ast.Task{Task: n, Location: &ast.Location{Taskfile: "/d/Taskfile.yml"}, Vars: ast.NewVars(), Env: ast.NewVars(),
			Cmds: []*ast.Cmd{{Cmd: "use {{.REV}}"}}}
		t.Vars.Set("REV", ast.Var{Sh: &sh})
		tf.Tasks.Set(n, t)
	}
	e := zzC11Executor(tf, "")
	names := []string{"publish", "fetch"}
	first := names[zz.Choose("compiled_first", 2)]
	for k, n := range []string{first, "publish"} {
		when := "first-compilation"
		if k == 1 {
			when = "after-the-command-already-ran"
		}
		ct, err := e.CompiledTask(&Call{Task: n})
		if fails {
			zz.Assert(err != nil, "failing-dynamic-variable-fails-the-compilation/"+when)
		} else {
			zz.Assert(err == nil && ct != nil && len(ct.Cmds) == 1 && ct.Cmds[0].Cmd == "use "+out, "dynamic-variable-holds-the-output/"+when)
		}
	}
	if zz.Twin() {
		zz.Assert(false, "twin")
	}
	zz.Reach("end")
}

// ZZ_C11_Isolation: compiling a task with given call variables gives the same
// commands, variables and environment whether or not the same task (with other
// variables) and other tasks were compiled before.
func ZZ_C11_Isolation() {
	zzRun = zzEchoShell
	zzEnviron = []string{"HOME=/h"}
	b1, b2 := zz.Str("binding1", 2, "ab"), zz.Str("binding2", 2, "ab")
	gv := zz.Str("global", 2, "ab")
	build := func() *ast.Taskfile {
		tf := &ast.Taskfile{Vars: ast.NewVars(), Env: ast.NewVars(), Tasks: ast.NewTasks(), Run: "always", Method: "checksum"}
		tf.Vars.Set("G", ast.Var{Value: gv})
		t := &ast.Task{Task: "t", Location: &ast.Location{Taskfile: "/d/f.yml"}, Vars: ast.NewVars(), Env: ast.NewVars(),
			Label: "t-{{.V}}",
			Cmds:  []*ast.Cmd{{Cmd: "run {{.V}} {{.G}} {{.W}}"}, {Task: "o", Vars: ast.NewVars()}},
			Deps:  []*ast.Dep{{Task: "o-{{.V}}"}},
		}
		t.Cmds[1].Vars.Set("X", ast.Var{Value: "{{.V}}"})
		t.Vars.Set("W", ast.Var{Value: "w{{.V}}"})
		t.Env.Set("E", ast.Var{Value: "e{{.V}}"})
		o := &ast.Task{Task: "o", Location: &ast.Location{Taskfile: "/d/f.yml"}, Vars: ast.NewVars(), Env: ast.NewVars(),
			Cmds: []*ast.Cmd{{Cmd: "other {{.V}}"}}}
		o.Vars.Set("V", ast.Var{Value: "own"})
		tf.Tasks.Set("t", t)
		tf.Tasks.Set("o", o)
		return tf
	}
	call := func(v string) *Call {
		c := &Call{Task: "t", Vars: ast.NewVars()}
		c.Vars.Set("V", ast.Var{Value: v})
		return c
	}
	// alone
	ea := zzC11Executor(build(), "")
	alone, err := ea.CompiledTask(call(b2))
	zz.Assert(err == nil && alone != nil, "compiles")
	// after a prefix of other compilations on one executor
	eb := zzC11Executor(build(), "")
	prefix := zz.Choose("prefix", 4)
	if prefix&1 != 0 {
		_, _ = eb.CompiledTask(call(b1))
	}
	if prefix&2 != 0 {
		_, _ = eb.CompiledTask(&Call{Task: "o"})
	}
	after, err2 := eb.CompiledTask(call(b2))
	zz.Assert(err2 == nil && after != nil, "compiles")
	if alone == nil || after == nil {
		return
	}
	zz.Assert(after.Label == alone.Label && after.Label == "t-"+b2, "same-meaning/label")
	zz.Assert(len(after.Cmds) == 2 && after.Cmds[0].Cmd == alone.Cmds[0].Cmd && after.Cmds[0].Cmd == "run "+b2+" "+gv+" w"+b2, "same-meaning/commands")
	zz.Assert(len(after.Deps) == 1 && after.Deps[0].Task == "o-"+b2, "same-meaning/deps")
	xa, _ := after.Cmds[1].Vars.Get("X")
	xs, _ := xa.Value.(string)
	zz.Assert(xs == b2, "same-meaning/call-vars")
	ev, _ := after.Env.Get("E")
	evs, _ := ev.Value.(string)
	zz.Assert(evs == "e"+b2, "same-meaning/env")
	// the definitions themselves are unchanged by compiling
	def, _ := eb.Taskfile.Tasks.Get("t")
	zz.Assert(def.Label == "t-{{.V}}" && def.Cmds[0].Cmd == "run {{.V}} {{.G}} {{.W}}" && def.Deps[0].Task == "o-{{.V}}", "definitions-unchanged")
	dx, _ := def.Cmds[1].Vars.Get("X")
	dxs, _ := dx.Value.(string)
	zz.Assert(dxs == "{{.V}}", "definitions-unchanged/call-vars")
	if zz.Twin() {
		zz.Assert(false, "twin")
	}
	zz.Reach("end")
}

// zzRecorder is a shell that records the command lines it is asked to run.
var zzRecorded []string

func zzRecordShell(ctx context.Context, opts *execext.RunCommandOptions) error {
	zzRecorded = append(zzRecorded, opts.Command)
	return nil
}

type zzLineSink struct {
	lines []string
	raw   string // everything written, as it came (the real shell writes a line in pieces)
}

func (s *zzLineSink) Write(p []byte) (int, error) {
	s.raw += string(p)
	s.lines = append(s.lines, strings.TrimSpace(string(p)))
	return len(p), nil
}

// ZZ_C11_Deferred: running a task twice in one invocation with different call
// variables gives each run its own commands, including the deferred command whose
// text is rendered when it runs.
func ZZ_C11_Deferred() {
	zzRun = zzRecordShell
	zzEnviron = []string{"HOME=/h"}
	zzRecorded = nil
	b1, b2 := zz.Str("binding1", 2, "ab"), zz.Str("binding2", 2, "ab")
	tf := &ast.Taskfile{Vars: ast.NewVars(), Env: ast.NewVars(), Tasks: ast.NewTasks(), Run: "always", Method: "checksum"}
	work := &ast.Task{Task: "work", Location: &ast.Location{Taskfile: "/d/f.yml"}, Vars: ast.NewVars(), Env: ast.NewVars(),
		Cmds: []*ast.Cmd{{Cmd: "echo cleanup-{{.NAME}}", Defer: true}, {Cmd: "echo work-{{.NAME}}"}}}
	tf.Tasks.Set("work", work)
	sink := &zzLineSink{}
	e := &Executor{Taskfile: tf, Stdout: sink, Stderr: io.Discard, Stdin: strings.NewReader(""), Silent: true, Output: output.Interleaved{}}
	e.Logger = zzQuietLogger()
	e.Compiler = &Compiler{Dir: "", TaskfileEnv: tf.Env, TaskfileVars: tf.Vars, Logger: e.Logger}
	e.setupConcurrencyState()
	call := func(v string) *Call {
		c := &Call{Task: "work", Vars: ast.NewVars()}
		c.Vars.Set("NAME", ast.Var{Value: v})
		return c
	}
	err1 := e.Run(context.Background(), call(b1))
	err2 := e.Run(context.Background(), call(b2))
	zz.Assert(err1 == nil && err2 == nil, "runs-succeed")
	got := zzRecorded
	if zz.Native() {
		got = nil
		for _, l := range strings.Split(strings.Join(sink.lines, "\n"), "\n") {
			if strings.TrimSpace(l) != "" {
				got = append(got, "echo "+strings.TrimSpace(l))
			}
		}
	}
	want := []string{"echo work-" + b1, "echo cleanup-" + b1, "echo work-" + b2, "echo cleanup-" + b2}
	zz.Assert(len(got) == len(want), "same-meaning/number-of-commands")
	if len(got) == len(want) {
		for k := range want {
			zz.Assert(got[k] == want[k], "same-meaning/each-run-has-its-own-commands-and-deferred-commands")
		}
	}
	def, _ := e.Taskfile.Tasks.Get("work")
	zz.Assert(def.Cmds[0].Cmd == "echo cleanup-{{.NAME}}" && def.Cmds[1].Cmd == "echo work-{{.NAME}}", "definitions-unchanged")
	if zz.Twin() {
		zz.Assert(false, "twin")
	}
	zz.Reach("end")
}
