package task

import (
	zz "github.com/go-task/task/v3/internal/zzsym"
	"github.com/go-task/task/v3/taskfile/ast"
)

// ZZ_C18_Kernel: the kernel shapes run with the engine's happens-before race check
// on every memory cell and map accessed by go-task code (parameter __race).
func ZZ_C18_Kernel() {
	g, roots, par := zzShape(zz.Param("shape", 2))
	tf := g.build(zzFailingDefault(g))
	_, _ = zzExec(g, tf, zzRunOpts{Concurrency: zz.Choose("concurrency", zz.Param("maxconc", 0)+1), Parallel: par}, roots...)
	if zz.Twin() {
		zz.Assert(false, "twin")
	}
	zz.Reach("end")
}

// ZZ_C18_Compile: two dependencies call the same task, which loops over a matrix
// with a ref row, concurrently; every shared definition must only be read.
func ZZ_C18_Compile() {
	probe := zzCmd{}
	g := &zzGraph{Tasks: []zzTask{
		{Name: "R", Deps: []string{"A", "B"}},
		{Name: "A", Cmds: []zzCmd{{Call: "T", Var: "x"}}},
		{Name: "B", Cmds: []zzCmd{{Call: "T", Var: "y"}}},
		{Name: "T", Cmds: []zzCmd{probe}},
	}}
	tf := g.build(func(string) bool { return false })
	t, _ := tf.Tasks.Get("T")
	useRef := zz.Bool("matrix_row_is_a_ref")
	row := &ast.MatrixRow{Value: []any{"1", "2"}}
	if useRef {
		row = &ast.MatrixRow{Ref: ".LIST"}
	}
	tf.Vars.Set("LIST", ast.Var{Value: []any{"1", "2"}})
	t.Cmds[0].For = &ast.For{Matrix: ast.NewMatrix(&ast.MatrixElement{Key: "N", Value: row})}
	_, _ = zzExec(g, tf, zzRunOpts{}, "R")
	if zz.Twin() {
		zz.Assert(false, "twin")
	}
	zz.Reach("end")
}


// ZZ_C18_EmptyVarsCall: two dependencies call the same task T, whose last command is a call
// of L with an explicitly empty `vars: {}` block: the (empty) set of the definition must not
// become the variables of the calls made from the concurrent executions of T (looking a task
// up writes MATCH into the variables of the call).
func ZZ_C18_EmptyVarsCall() {
	g := &zzGraph{Tasks: []zzTask{
		{Name: "R", Deps: []string{"A", "B"}},
		{Name: "A", Cmds: []zzCmd{{Call: "T"}, {Call: "T"}}}, // (a second execution, after the first looked L up)
		{Name: "B", Cmds: []zzCmd{{Call: "T"}}},
		{Name: "T", Cmds: []zzCmd{{}, {Call: "L"}}}, // (a command between compiling T and calling L)
		{Name: "L", Cmds: []zzCmd{{}}},
	}}
	tf := g.build(func(string) bool { return false })
	t, _ := tf.Tasks.Get("T")
	t.Cmds[1].Vars = ast.NewVars()
	_, _ = zzExec(g, tf, zzRunOpts{}, "R")
	if zz.Twin() {
		zz.Assert(false, "twin")
	}
	zz.Reach("end")
}

// ZZ_C18_Deferred: two dependencies call the same task, which has a deferred
// command with a template, concurrently.
func ZZ_C18_Deferred() {
	probe := zzCmd{}
	g := &zzGraph{Tasks: []zzTask{
		{Name: "R", Deps: []string{"A", "B"}},
		{Name: "A", Cmds: []zzCmd{{Call: "T", Var: "x"}}},
		{Name: "B", Cmds: []zzCmd{{Call: "T", Var: "y"}}},
		{Name: "T", Cmds: []zzCmd{{Defer: true}, probe}},
	}}
	tf := g.build(func(string) bool { return false })
	t, _ := tf.Tasks.Get("T")
	t.Cmds[0].Cmd += "#{{.V}}" // rendered when the deferred command runs
	if zz.Native() {
		t.Cmds[0].Cmd = "echo S:T.0 {{.V}}; echo F:T.0:0"
	}
	_, _ = zzExec(g, tf, zzRunOpts{}, "R")
	if zz.Twin() {
		zz.Assert(false, "twin")
	}
	zz.Reach("end")
}

// ZZ_C18_DynamicVars: two dependencies run concurrently, each (symbolically) with a
// task-level dynamic variable, optionally after a global one was resolved on the main
// goroutine: the compiler's cache of dynamic variables is shared by both.
func ZZ_C18_DynamicVars() {
	probe := zzCmd{}
	g := &zzGraph{Tasks: []zzTask{
		{Name: "R", Deps: []string{"A", "B"}},
		{Name: "A", Cmds: []zzCmd{probe}},
		{Name: "B", Cmds: []zzCmd{probe}},
	}}
	tf := g.build(func(string) bool { return false })
	sh := func(text string) ast.Var { s := text; return ast.Var{Sh: &s} }
	if zz.Bool("global_dynamic_var") {
		tf.Vars.Set("G", sh("echo g"))
	}
	same := zz.Bool("both_also_share_one_command")
	for _, n := range []string{"A", "B"} {
		t, _ := tf.Tasks.Get(n)
		if zz.Bool("dynamic_var_in_" + n) {
			t.Vars.Set("WHO", sh("echo "+n))
		}
		if same {
			t.Vars.Set("SAME", sh("echo same"))
		}
	}
	_, _ = zzExec(g, tf, zzRunOpts{}, "R")
	if zz.Twin() {
		zz.Assert(false, "twin")
	}
	zz.Reach("end")
}

// ZZ_C18_Names: parallel dependencies reach their tasks through wildcard patterns and an
// alias: resolving such names walks the whole (shared) task table from every goroutine.
func ZZ_C18_Names() {
	probe := zzCmd{}
	g := &zzGraph{Tasks: []zzTask{
		{Name: "R", Deps: []string{"build-x", "build-y", "l"}},
		{Name: "build-*", Cmds: []zzCmd{probe}},
		{Name: "lint", Cmds: []zzCmd{probe}},
	}}
	tf := g.build(func(string) bool { return false })
	lt, _ := tf.Tasks.Get("lint")
	lt.Aliases = []string{"l"}
	_, _ = zzExec(g, tf, zzRunOpts{}, "R")
	if zz.Twin() {
		zz.Assert(false, "twin")
	}
	zz.Reach("end")
}

// ZZ_C18_ShellOptions: parallel dependencies run commands of tasks that share one
// Taskfile-level set:/shopt: list (unsorted, with a duplicate): joining the option lists for
// a command must not write to the shared list.
func ZZ_C18_ShellOptions() {
	probe := zzCmd{}
	g := &zzGraph{Tasks: []zzTask{
		{Name: "R", Deps: []string{"A", "B"}},
		{Name: "A", Cmds: []zzCmd{probe}},
		{Name: "B", Cmds: []zzCmd{probe}},
	}}
	tf := g.build(func(string) bool { return false })
	switch zz.Choose("options_declared_at", 3) {
	case 0:
		tf.Set = []string{"pipefail", "errexit", "errexit"}
		tf.Shopt = []string{"globstar"}
	case 1: // on each task
		for _, n := range []string{"A", "B"} {
			t, _ := tf.Tasks.Get(n)
			t.Set = []string{"pipefail", "errexit"}
		}
	case 2: // Taskfile and task level
		tf.Set = []string{"pipefail", "errexit"}
		t, _ := tf.Tasks.Get("A")
		t.Set = []string{"nounset"}
	}
	_, _ = zzExec(g, tf, zzRunOpts{}, "R")
	zz.Assert(len(tf.Set) == 0 || tf.Set[0] == "pipefail", "the-declared-option-list-is-not-rewritten")
	if zz.Twin() {
		zz.Assert(false, "twin")
	}
	zz.Reach("end")
}
