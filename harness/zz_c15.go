package task

import (
	"io"
	"fmt"
	"strings"

	"github.com/sajari/fuzzy"

	"github.com/go-task/task/v3/errors"
	tasksort "github.com/go-task/task/v3/internal/sort"
	zz "github.com/go-task/task/v3/internal/zzsym"
	"github.com/go-task/task/v3/taskfile/ast"
)

// ---- fuzzy library stubs (symbolic run only): the model records what it was trained on ----

var zzTrained []string
var zzThreshold int

//gosmt:stub github.com/sajari/fuzzy.NewModel
func zzFuzzyNew() *fuzzy.Model { return &fuzzy.Model{} }

//gosmt:stub (*github.com/sajari/fuzzy.Model).SetThreshold
func zzFuzzyThreshold(m *fuzzy.Model, t int) { zzThreshold = t }

//gosmt:stub (*github.com/sajari/fuzzy.Model).Train
func zzFuzzyTrain(m *fuzzy.Model, words []string) { zzTrained = append(zzTrained, words...) }

//gosmt:stub (*github.com/sajari/fuzzy.Model).SpellCheck
func zzFuzzySpell(m *fuzzy.Model, w string) string { return "suggest(" + w + ")" }

const zzNameAlphabet = "ab:.*-(+"

// zzWild is the specification of wildcard matching: only '*' is special, every
// other character is literal; ok and the number of wildcard values.
func zzWild(pattern, name string) (bool, int) {
	parts := strings.Split(pattern, "*")
	switch len(parts) {
	case 1:
		return false, 0 // no wildcard: not a pattern (exact names are handled before)
	case 2:
		return len(name) >= len(parts[0])+len(parts[1]) && strings.HasPrefix(name, parts[0]) && strings.HasSuffix(name, parts[1]), 1
	case 3:
		if !(len(name) >= len(parts[0])+len(parts[1])+len(parts[2]) && strings.HasPrefix(name, parts[0]) && strings.HasSuffix(name, parts[2])) {
			return false, 2
		}
		mid := name[len(parts[0]) : len(name)-len(parts[2])]
		return strings.Contains(mid, parts[1]), 2
	}
	return false, -1
}

// ZZ_C15_Resolve: exact name first, then the first matching wildcard pattern in
// table order (only '*' special, MATCH = the matched substrings), then the unique
// alias owner; 203 on ambiguous alias, 200 otherwise.
func ZZ_C15_Resolve() {
	nt := zz.Param("tasks", 2)
	var names []string
	var aliases []string
	tasks := ast.NewTasks()
	for k := 0; k < nt; k++ {
		name := zz.Str(fmt.Sprintf("name%d", k), zz.Param("namelen", 3), zzNameAlphabet)
		alias := zz.Str(fmt.Sprintf("alias%d", k), 2, "ab:")
		zz.Assume(name != "")
		zz.Assume(strings.Count(name, "*") <= 2)
		for _, o := range names {
			zz.Assume(o != name)
		}
		names = append(names, name)
		aliases = append(aliases, alias)
		t := &ast.Task{Task: name}
		if alias != "" {
			t.Aliases = []string{alias}
		}
		tasks.Set(name, t)
	}
	// (a request may also hold a newline: '*' stands for any text)
	req := zz.Str("request", zz.Param("reqlen", 4), zzNameAlphabet+"\n")
	e := &Executor{Taskfile: &ast.Taskfile{Tasks: tasks}}
	if zz.Bool("fuzzy") {
		e.fuzzyModel = fuzzy.NewModel()
	}
	if zz.Native() {
		zzLiteralWitness(e, names)
	}
	call := &Call{Task: req}
	if zz.Bool("call_has_vars") { // e.g. a `task:` entry or dep with a vars: block
		call.Vars = ast.NewVars()
		call.Vars.Set("GREETING", ast.Var{Value: "hi"})
	}
	got, err := e.GetTask(call)

	// specification
	want := -1
	kind := ""
	for k, n := range names {
		if n == req {
			want, kind = k, "exact"
			break
		}
	}
	nstars := 0
	if want < 0 {
		for k, n := range names {
			if ok, c := zzWild(n, req); ok {
				want, kind, nstars = k, "wildcard", c
				break
			}
		}
	}
	nalias := 0
	if want < 0 {
		for k, a := range aliases {
			if a != "" && a == req {
				nalias++
				want, kind = k, "alias"
			}
		}
	}
	switch {
	case want >= 0 && !(kind == "alias" && nalias > 1):
		zz.Assert(err == nil && got != nil && got.Task == names[want], "resolves-"+kind)
		if err == nil && kind == "wildcard" {
			m, _ := call.Vars.Get("MATCH")
			ws, _ := m.Value.([]string)
			if m.Value == nil { // the matched text is a live value (never rendered as a template)
				ws, _ = m.Live.([]string)
			}
			zz.Assert(len(ws) == nstars, "MATCH-has-one-entry-per-star")
			if len(ws) == nstars {
				parts := strings.Split(names[want], "*")
				re := parts[0]
				for k, w := range ws {
					re += w + parts[k+1]
				}
				zz.Assert(re == req, "MATCH-holds-the-matched-substrings")
				if nstars == 2 && re == req {
					// where the request can be split in several ways, the reference is the
					// matcher's own rule for '*': as much as possible, leftmost first
					// (the first star took the most iff the middle literal does not occur
					// again further right)
					greedy := ws[1] == ""
					if parts[1] != "" {
						tail := parts[1] + ws[1]
						greedy = !strings.Contains(tail[1:], parts[1])
					}
					zz.Assert(greedy, "MATCH-each-star-takes-as-much-as-possible-leftmost-first")
				}
			}
		}
	case kind == "alias" && nalias > 1:
		_, is203 := err.(*errors.TaskNameConflictError)
		zz.Assert(got == nil && is203, "ambiguous-alias-is-203")
	default:
		nf, is200 := err.(*errors.TaskNotFoundError)
		zz.Assert(got == nil && is200, "unknown-name-is-200")
		if is200 && e.fuzzyModel != nil {
			zz.Assert(nf.DidYouMean == e.fuzzyModel.SpellCheck(req), "error-carries-the-suggestion")
		}
	}
	if zz.Twin() {
		zz.Assert(false, "twin")
	}
	zz.Reach("end")
}

// ZZ_C15_Fuzzy: after setup on a loaded Taskfile the spelling model exists and
// was trained on every task name and alias.
func ZZ_C15_Fuzzy() {
	tasks := ast.NewTasks()
	n0 := zz.Str("name0", 3, "ab:")
	n1 := zz.Str("name1", 3, "ab:")
	a0 := zz.Str("alias0", 2, "ab")
	zz.Assume(n0 != "" && n1 != "" && n0 != n1 && a0 != "")
	// a label is what a task is shown as, not a name it can be requested by
	label := []string{"", "release notes"}[zz.Choose("label0", 2)]
	tasks.Set(n0, &ast.Task{Task: n0, Label: label, Aliases: []string{a0}})
	tasks.Set(n1, &ast.Task{Task: n1})
	e := &Executor{Taskfile: &ast.Taskfile{Tasks: tasks}}
	zzTrained = nil
	e.setupFuzzyModel()
	zz.Assert(e.fuzzyModel != nil, "spelling-model-built-when-a-taskfile-is-loaded")
	if e.fuzzyModel != nil {
		if zz.Native() {
			s := e.fuzzyModel.SpellCheck(n0)
			zz.Assert(s == n0 || s == "", "trained-on-names")
			zz.Assert(label == "" || e.fuzzyModel.SpellCheck(label) != label, "trained-on-every-name-and-alias")
		} else {
			has := func(w string) bool {
				for _, t := range zzTrained {
					if t == w {
						return true
					}
				}
				return false
			}
			zz.Assert(has(n0) && has(n1) && has(a0) && (label == "" || !has(label)), "trained-on-every-name-and-alias")
		}
		_, err := e.GetTask(&Call{Task: "zzz"})
		nf, ok := err.(*errors.TaskNotFoundError)
		zz.Assert(ok, "unknown-name-is-200")
		if ok && !zz.Native() {
			zz.Assert(nf.DidYouMean == "suggest(zzz)", "error-carries-the-suggestion")
		}
	}
	if zz.Twin() {
		zz.Assert(false, "twin")
	}
	zz.Reach("end")
}

// zzLiteralWitness (native replay only): the symbolic run reports "a task name may
// hold a regexp metacharacter, whose treatment is not encoded" as a candidate; the
// replay looks for a request that shows a non-literal treatment of these names
// (a panic, or a resolution different from the '*'-only specification).
func zzLiteralWitness(e *Executor, names []string) {
	var reqs []string
	var gen func(prefix string, n int)
	gen = func(prefix string, n int) {
		reqs = append(reqs, prefix)
		if n == 0 {
			return
		}
		for k := 0; k < len(zzNameAlphabet); k++ {
			gen(prefix+zzNameAlphabet[k:k+1], n-1)
		}
	}
	gen("", 3)
	for _, r := range reqs {
		bad := func() (bad bool) {
			defer func() {
				if rec := recover(); rec != nil {
					fmt.Printf("ZZ-NOTE request %q panics: %v\n", r, rec)
					bad = true
				}
			}()
			got, _ := e.GetTask(&Call{Task: r})
			want := ""
			for _, n := range names {
				if n == r {
					want = n
					break
				}
			}
			if want == "" {
				for _, n := range names {
					if ok, _ := zzWild(n, r); ok {
						want = n
						break
					}
				}
			}
			gotName := ""
			if got != nil {
				gotName = got.Task
			}
			// aliases are not part of this witness search
			if want != "" && gotName != want {
				fmt.Printf("ZZ-NOTE request %q resolves to %q, specification says %q\n", r, gotName, want)
				return true
			}
			if want == "" && gotName != "" && len(got.Aliases) == 0 {
				fmt.Printf("ZZ-NOTE request %q resolves to %q, specification says no task\n", r, gotName)
				return true
			}
			return false
		}()
		if bad {
			zz.Assert(false, "task-name-characters-are-literal")
			return
		}
	}
}


// ZZ_C15_TableOrder: with several matching wildcard patterns the first one in
// Taskfile order wins, whatever task sorter is installed for listings.
func ZZ_C15_TableOrder() {
	patterns := []string{"deploy-*", "*-prod", "*", "de*-*", "b:*", "b:(x).*"}
	k1 := zz.Choose("first_pattern", len(patterns))
	k2 := zz.Choose("second_pattern", len(patterns))
	zz.Assume(k1 != k2)
	reqs := []string{"deploy-prod", "b:(x).js", "x-prod", "deploy-x"}
	req := reqs[zz.Choose("request", len(reqs))]
	tasks := ast.NewTasks()
	tasks.Set(patterns[k1], &ast.Task{Task: patterns[k1]})
	tasks.Set(patterns[k2], &ast.Task{Task: patterns[k2]})
	e := &Executor{Taskfile: &ast.Taskfile{Tasks: tasks}}
	sorters := []tasksort.Sorter{nil, tasksort.AlphaNumericWithRootTasksFirst, tasksort.AlphaNumeric, tasksort.NoSort}
	e.TaskSorter = sorters[zz.Choose("sorter", len(sorters))]
	got, err := e.GetTask(&Call{Task: req})
	m1, _ := zzWild(patterns[k1], req)
	m2, _ := zzWild(patterns[k2], req)
	switch {
	case m1:
		zz.Assert(err == nil && got != nil && got.Task == patterns[k1], "first-matching-pattern-in-taskfile-order-wins")
	case m2:
		zz.Assert(err == nil && got != nil && got.Task == patterns[k2], "first-matching-pattern-in-taskfile-order-wins")
	default:
		zz.Assert(got == nil && err != nil, "unknown-name-is-200")
	}
	if zz.Twin() {
		zz.Assert(false, "twin")
	}
	zz.Reach("end")
}

// ZZ_C15_MatchVerbatim: .MATCH holds exactly the matched substrings, whatever bytes they
// are made of: the text a wildcard matched is data, not a template (run with __tmplsym=1, so
// text that reaches the template engine is symbolic).
func ZZ_C15_MatchVerbatim() {
	suffix := zz.Str("matched_text", 3, "a{}.")
	zzEnviron = []string{"HOME=/h"}
	tf := &ast.Taskfile{Vars: ast.NewVars(), Env: ast.NewVars(), Tasks: ast.NewTasks(), Run: "always", Method: "checksum"}
	tf.Tasks.Set("w-*", &ast.Task{Task: "w-*", Location: &ast.Location{Taskfile: "/d/f.yml"}, Vars: ast.NewVars(), Env: ast.NewVars(),
		Cmds: []*ast.Cmd{{Cmd: "probe"}}})
	e := &Executor{Taskfile: tf, Stdout: io.Discard, Stderr: io.Discard}
	e.Logger = zzQuietLogger()
	e.Compiler = &Compiler{Dir: "", TaskfileEnv: tf.Env, TaskfileVars: tf.Vars, Logger: e.Logger}
	t, err := e.CompiledTask(&Call{Task: "w-" + suffix})
	ok := err == nil && t != nil
	if ok {
		m, found := t.Vars.Get("MATCH")
		ws, isList := m.Value.([]string)
		ok = found && isList && len(ws) == 1 && ws[0] == suffix
	}
	zz.Assert(ok, "MATCH-holds-the-matched-text-verbatim")
	if zz.Twin() {
		zz.Assert(false, "twin")
	}
	zz.Reach("end")
}

// ZZ_C08_RootReference: a task of an included Taskfile refers to a task of the root Taskfile
// with a leading ':' (in a command and in a dependency); whether the include is namespaced or
// flattened, looking the reference up as the Executor does when it makes the call finds the
// root's task (and a reference without the ':' finds the included file's own task).
func ZZ_C08_RootReference() {
	rootHello := &ast.Task{Task: "hello", Location: &ast.Location{Taskfile: "/root/Taskfile.yml"}}
	root := ast.NewTasks()
	root.Set("hello", rootHello)
	inc := ast.NewTasks()
	inc.Set("go", &ast.Task{Task: "go", Location: &ast.Location{Taskfile: "/a/Taskfile.yml"},
		Cmds: []*ast.Cmd{{Task: ":hello"}, {Task: "own"}}, Deps: []*ast.Dep{{Task: ":hello"}}})
	incOwn := &ast.Task{Task: "own", Location: &ast.Location{Taskfile: "/a/Taskfile.yml"}}
	inc.Set("own", incOwn)
	flatten := zz.Bool("include_is_flattened")
	err := root.Merge(inc, &ast.Include{Namespace: "a", Flatten: flatten}, nil)
	zz.Assert(err == nil, "merge-must-not-fail")
	key := "a:go"
	if flatten {
		key = "go"
	}
	t, ok := root.Get(key)
	zz.Assert(ok, "included-task-callable")
	if !ok {
		return
	}
	e := &Executor{Taskfile: &ast.Taskfile{Tasks: root}}
	for _, ref := range []string{t.Cmds[0].Task, t.Deps[0].Task} {
		got, err := e.GetTask(&Call{Task: ref})
		zz.Assert(err == nil && got != nil && got.Location.Taskfile == "/root/Taskfile.yml" && got.Task == "hello", "colon-reference-names-the-root-task")
	}
	got, err := e.GetTask(&Call{Task: t.Cmds[1].Task})
	zz.Assert(err == nil && got != nil && got.Location.Taskfile == "/a/Taskfile.yml", "plain-reference-names-the-own-files-task")
	if zz.Twin() {
		zz.Assert(false, "twin")
	}
	zz.Reach("end")
}
