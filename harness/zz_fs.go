package task

import (
	"fmt"
	"io/fs"
	"os"
	"sort"
	"strings"
	"time"

	"github.com/go-task/task/v3/internal/fingerprint"
	zz "github.com/go-task/task/v3/internal/zzsym"
	"github.com/go-task/task/v3/taskfile/ast"
)

// ---- file-system and clock model of the history harnesses (symbolic run only) -------------

type zzFile struct {
	dir     bool
	content string
	mtime   int64
}

var (
	zzFS     map[string]*zzFile
	zzClock  int64
	zzFSLog  []string // every mutation of the tree, in order
	zzFSUsed bool
)

func zzFSReset() {
	zzFS = map[string]*zzFile{}
	zzClock = 1000
	zzFSLog = nil
	zzFSUsed = true
	zzDangling = map[string]bool{}
}

func zzTick() int64 { zzClock++; return zzClock }

func zzPut(name, content string) {
	zzFS[name] = &zzFile{content: content, mtime: zzTick()}
}

type zzFInfo struct {
	name string
	f    *zzFile
}

func (i zzFInfo) Name() string       { return i.name }
func (i zzFInfo) Size() int64        { return int64(len(i.f.content)) }
func (i zzFInfo) Mode() fs.FileMode  { return 0o644 }
func (i zzFInfo) ModTime() time.Time { return time.Unix(i.f.mtime, 0) }
func (i zzFInfo) IsDir() bool        { return i.f.dir }
func (i zzFInfo) Sys() any           { return nil }

//gosmt:stub time.Now
func zzNow() time.Time { return time.Unix(zzTick(), 0) }

//gosmt:stub os.Stat
func zzStat(name string) (fs.FileInfo, error) {
	if f, ok := zzFS[name]; ok {
		return zzFInfo{name, f}, nil
	}
	return nil, fs.ErrNotExist
}

//gosmt:stub os.IsNotExist
func zzIsNotExist(err error) bool { return err == fs.ErrNotExist }

//gosmt:stub os.ReadFile
func zzReadFile(name string) ([]byte, error) {
	if f, ok := zzFS[name]; ok && !f.dir {
		return []byte(f.content), nil
	}
	return nil, fs.ErrNotExist
}

//gosmt:stub os.WriteFile
func zzWriteFile(name string, data []byte, perm os.FileMode) error {
	zzFS[name] = &zzFile{content: string(data), mtime: zzTick()}
	zzFSLog = append(zzFSLog, "write "+name)
	return nil
}

//gosmt:stub os.MkdirAll
func zzMkdirAll(path string, perm os.FileMode) error {
	if _, ok := zzFS[path]; !ok {
		zzFS[path] = &zzFile{dir: true, mtime: zzTick()}
		zzFSLog = append(zzFSLog, "mkdir "+path)
	}
	return nil
}

//gosmt:stub os.Remove
func zzRemove(name string) error {
	if _, ok := zzFS[name]; !ok {
		return fs.ErrNotExist
	}
	delete(zzFS, name)
	zzFSLog = append(zzFSLog, "remove "+name)
	return nil
}

//gosmt:stub os.Create
func zzCreate(name string) (*os.File, error) {
	zzFS[name] = &zzFile{mtime: zzTick()}
	zzFSLog = append(zzFSLog, "create "+name)
	return nil, nil
}

//gosmt:stub (*os.File).Close
func zzFileClose(f *os.File) error { return nil }

//gosmt:stub os.Chtimes
func zzChtimes(name string, atime, mtime time.Time) error {
	f, ok := zzFS[name]
	if !ok {
		return fs.ErrNotExist
	}
	f.mtime = mtime.Unix()
	zzFSLog = append(zzFSLog, "chtimes "+name)
	return nil
}

// glob matching itself (mvdan/sh expansion) is not encoded: a pattern with one '*'
// expands to the existing directory entries with that prefix and suffix (files, directories
// and symbolic links whose target is missing alike: expansion reads directories, it does not
// follow links), any other pattern and a pattern without a match to itself. What
// fingerprint.glob makes of the entries (os.Stat, directories left out) runs from source.
//
//gosmt:stub github.com/go-task/task/v3/internal/execext.ExpandFields
func zzExpandFields(g string) ([]string, error) {
	var out []string
	if k := strings.Index(g, "*"); k >= 0 {
		pre, suf := g[:k], g[k+1:]
		for name := range zzFS {
			if len(name) >= len(pre)+len(suf) && strings.HasPrefix(name, pre) && strings.HasSuffix(name, suf) &&
				!strings.Contains(name[len(pre):len(name)-len(suf)], "/") {
				out = append(out, name)
			}
		}
		for name := range zzDangling {
			if len(name) >= len(pre)+len(suf) && strings.HasPrefix(name, pre) && strings.HasSuffix(name, suf) &&
				!strings.Contains(name[len(pre):len(name)-len(suf)], "/") {
				out = append(out, name)
			}
		}
		sort.Strings(out)
		if len(out) > 0 {
			return out, nil
		}
	}
	return []string{g}, nil
}

// zzDangling: symbolic links whose target does not exist: listed by a directory read, but
// os.Stat (which follows links) does not find them.
var zzDangling map[string]bool

// ChecksumChecker.checksum feeds one hasher with, for every source file in Globs order, the
// file's base name followed by its contents. The model keeps exactly that byte stream and
// takes the xxh3 digest to be an injective function of the stream (hash collisions are
// outside the claim; what the stream cannot tell apart is not).
//
//gosmt:stub (*github.com/go-task/task/v3/internal/fingerprint.ChecksumChecker).checksum
func zzChecksum(c *fingerprint.ChecksumChecker, t *ast.Task) (string, error) {
	sources, err := fingerprint.Globs(t.Dir, t.Sources)
	if err != nil {
		return "", err
	}
	h := "xxh3:" // the digest of an empty stream is not the empty string either
	for _, f := range sources {
		file, ok := zzFS[f]
		if !ok {
			return "", fs.ErrNotExist
		}
		base := f
		if k := strings.LastIndex(f, "/"); k >= 0 {
			base = f[k+1:]
		}
		h += base + file.content + zzChecksumFrame(file.content)
	}
	return h, nil
}

// zzChecksumFrame: what the real code adds after a file's contents: nothing (the parameter
// exists to show that a NUL-delimited length would make the stream injective; see the known
// finding of ZZ_C05_ChecksumFraming).
func zzChecksumFrame(content string) string {
	if zz.Param("checksum_has_frame", 0) == 1 {
		return fmt.Sprintf("\x00%d\x00", len(content))
	}
	return ""
}

var _ = zz.Native
